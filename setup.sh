#!/bin/sh
# Nothing is prebuilt: every check compiles /repo's working tree into a private scratch dir.
# This only verifies that the offline tools are present.
set -e
cargo kani --version
cbmc --version
goto-instrument --version >/dev/null
goto-cc --version >/dev/null
python3 --version
test -f /repo/Cargo.toml
echo setup ok
