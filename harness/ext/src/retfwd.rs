// Ret / Fwd at the public API: a Ret's closure is invoked exactly once -- Some on ret(), None on drop -- wherever the
// drop happens (main, lazy, idle and timer queues; timer deletion; Stakker drop).  Properties C05, C16.
//
// @file crate=ext features=ms-nuq restrict_vtable=1 replay_cfg=uazu_replay_retfwd
use crate::support::*;
use stakker::*;
use std::time::{Duration, Instant};

static mut CALLS: [u8; 4] = [0; 4]; // per Ret: number of invocations
static mut GOT: [i64; 4] = [0; 4]; // per Ret: -1 = None, else the message
fn reset() {
    unsafe {
        CALLS = [0; 4];
        GOT = [0; 4];
    }
    log_reset();
}
fn calls(i: usize) -> u8 {
    unsafe { CALLS[i] }
}
fn got(i: usize) -> i64 {
    unsafe { GOT[i] }
}
fn mk(i: usize) -> Ret<u32> {
    Ret::new(move |m: Option<u32>| unsafe {
        CALLS[i] += 1;
        GOT[i] = match m {
            Some(v) => v as i64,
            None => -1,
        };
    })
}

// ---- direct use: ret / drop ----
// @verif prop=C05 tier=quick timeout=1200 mem=8 unwind=6
// @enc Ret::new Ret::ret Ret::drop
// @sym message value; choice ret / drop
// @bound one Ret
#[kani::proof]
#[kani::unwind(6)]
fn ret_direct() {
    reset();
    let m: u32 = kani::any();
    let r = mk(0);
    assert!(calls(0) == 0);
    let use_it: bool = kani::any();
    if use_it {
        r.ret(m);
        assert!(calls(0) == 1 && got(0) == m as i64, "C05: ret() must invoke the closure once with Some(message)");
    } else {
        drop(r);
        assert!(calls(0) == 1 && got(0) == -1, "C05: dropping a Ret must invoke the closure once with None");
    }
    kani::cover!(use_it, "ret");
    kani::cover!(!use_it, "drop");
}

// ---- a Ret travelling inside queued closures ----
fn in_queues(run: bool) {
    reset();
    let t0 = base_instant();
    let mut s = Stakker::new(t0);
    let m: u32 = kani::any();
    let (r0, r1, r2) = (mk(0), mk(1), mk(2));
    s.defer(move |_s| r0.ret(m));
    s.lazy(move |_s| r1.ret(m.wrapping_add(1)));
    s.idle(move |_s| r2.ret(m.wrapping_add(2)));
    assert!(calls(0) == 0 && calls(1) == 0 && calls(2) == 0, "C05: invoked before being consumed");
    if run {
        let _ = s.run(at(t0, 10, 0), true);
        assert!(calls(2) == 1 && got(2) == m.wrapping_add(2) as i64, "C05: idle item");
        assert!(calls(0) == 1 && got(0) == m as i64, "C05: main item");
        assert!(calls(1) == 1 && got(1) == m.wrapping_add(1) as i64, "C05: lazy item");
        std::mem::forget(s);
    } else {
        drop(s);
        assert!(calls(0) == 1 && got(0) == -1, "C05: Ret in a main-queue closure of a dropped Stakker must report None once");
        assert!(calls(1) == 1 && got(1) == -1, "C05: Ret in a lazy-queue closure of a dropped Stakker must report None once");
        assert!(calls(2) == 1 && got(2) == -1, "C05: Ret in an idle-queue closure of a dropped Stakker must report None once");
    }
    kani::cover!(true, "script completed");
}

// a Ret inside a timer closure: fired, deleted, or still pending when the Stakker is dropped
fn in_timer(mode: u8) {
    reset();
    let t0 = base_instant();
    let mut s = Stakker::new(t0);
    let m: u32 = kani::any();
    let r3 = mk(3);
    let key = s.timer_add(at(t0, 5, 0), move |_s| r3.ret(m));
    assert!(calls(3) == 0, "C05: invoked before being consumed");
    if mode == 0 {
        let _ = s.run(at(t0, 10, 0), false);
        assert!(calls(3) == 1 && got(3) == m as i64, "C05: Ret in a fired timer");
        std::mem::forget(s);
    } else if mode == 1 {
        assert!(s.timer_del(key));
        assert!(calls(3) == 1 && got(3) == -1, "C05: a Ret in a deleted timer must report None at the deletion");
        let _ = s.run(at(t0, 10, 0), false);
        assert!(calls(3) == 1, "C05: invoked twice");
        std::mem::forget(s);
    } else {
        drop(s);
        assert!(calls(3) == 1 && got(3) == -1, "C05: Ret in a timer closure of a dropped Stakker must report None once");
    }
    kani::cover!(true, "script completed");
}

macro_rules! rf_harness {
    ($name:ident, $body:expr) => {
        #[kani::proof]
        #[kani::unwind(12)]
        #[kani::stub(std::hash::RandomState::new, crate::support::fixed_random_state)]
        fn $name() {
            $body;
        }
    };
}
// @verif prop=C05,C18 tier=quick timeout=1200 mem=24 unwind=12 unwindset=drop_glue::<\[.*Stakker\)>\]>\.0$:1 alt=ms-nu
// @enc Ret::{new,ret,drop} Core::{defer,lazy,idle} Stakker::run
// @sym message value
// @bound one Ret in each of the main, lazy and idle queues; run(idle=true)
// @stub std::hash::RandomState::new -> fixed keys
// @assume multi-stakker,no-unsafe-queue build
rf_harness!(ret_in_queues_run, in_queues(true));
// @verif prop=C05,C16,C18 tier=quick timeout=1200 mem=24 unwind=12 unwindset=drop_glue::<\[.*Stakker\)>\]>\.0$:3 alt=ms-nu
// @enc Ret::{new,drop} Stakker::drop Core::{defer,lazy,idle}
// @sym message value
// @bound one Ret in each of the main, lazy and idle queues; Stakker dropped without running
// @stub std::hash::RandomState::new -> fixed keys
// @assume multi-stakker,no-unsafe-queue build
rf_harness!(ret_in_queues_drop, in_queues(false));
// @verif prop=C05 tier=quick timeout=1200 mem=24 unwind=12 unwindset=drop_glue::<\[.*Stakker\)>\]>\.0$:1,::advance\.1$:2,::advance\.0$:3,::add\.0$:2,::add\.1$:1
// @enc Ret::{new,ret,drop} Core::timer_add Stakker::run Timers::{add,advance}
// @sym message value
// @bound one Ret in a fixed timer that fires
// @stub std::hash::RandomState::new -> fixed keys
// @assume multi-stakker,no-unsafe-queue build; BTreeMap modelled by harness/model/vmap.rs
rf_harness!(ret_in_timer_fired, in_timer(0));
// @verif prop=C05 tier=quick timeout=1200 mem=24 unwind=12 unwindset=drop_glue::<\[.*Stakker\)>\]>\.0$:1,::advance\.1$:2,::advance\.0$:3,::add\.0$:2,::add\.1$:1
// @enc Ret::{new,drop} Core::{timer_add,timer_del} Timers::{add,del}
// @sym message value
// @bound one Ret in a fixed timer that is deleted, then a run
// @stub std::hash::RandomState::new -> fixed keys
// @assume multi-stakker,no-unsafe-queue build; BTreeMap modelled by harness/model/vmap.rs
rf_harness!(ret_in_timer_deleted, in_timer(1));
// @verif prop=C05,C16 tier=quick timeout=1200 mem=24 unwind=12 unwindset=drop_glue::<\[.*Stakker\)>\]>\.0$:3,::add\.0$:2,::add\.1$:1
// @enc Ret::{new,drop} Core::timer_add Stakker::drop
// @sym message value
// @bound one Ret in a pending fixed timer; Stakker dropped
// @stub std::hash::RandomState::new -> fixed keys
// @assume multi-stakker,no-unsafe-queue build; BTreeMap modelled by harness/model/vmap.rs (its entries are dropped with the map)
rf_harness!(ret_in_timer_dropped, in_timer(2));

// ---- Fwd: clone / call / drop of the ref-counted closure ----
static mut FDROPS: u8 = 0;
struct FTok;
impl Drop for FTok {
    fn drop(&mut self) {
        unsafe { FDROPS += 1 };
    }
}
// @verif prop=C16,C18 tier=quick timeout=1200 mem=8 unwind=6 leakcheck=1 alt=ms-nu
// @enc Fwd::{new,fwd,clone} FwdRc::{new,inner,clone} MinRc::{new_with,clone,drop}
// @sym message values; order of dropping the two handles
// @bound one Fwd, one clone, two calls, both dropped
#[kani::proof]
#[kani::unwind(6)]
fn fwd_clone_call_drop() {
    reset();
    unsafe { FDROPS = 0 };
    let tok = FTok;
    let f: Fwd<u32> = Fwd::new(move |m: u32| unsafe {
        let _keep = &tok;
        CALLS[0] += 1;
        GOT[0] = m as i64;
    });
    let g = f.clone();
    let (a, b): (u32, u32) = (kani::any(), kani::any());
    f.fwd(a);
    assert!(calls(0) == 1 && got(0) == a as i64);
    if kani::any() {
        drop(f);
        assert!(unsafe { FDROPS } == 0, "C16: Fwd closure freed while a clone exists");
        g.fwd(b);
        drop(g);
    } else {
        drop(g);
        assert!(unsafe { FDROPS } == 0, "C16: Fwd closure freed while a clone exists");
        f.fwd(b);
        drop(f);
    }
    assert!(calls(0) == 2 && got(0) == b as i64, "Fwd must deliver every message");
    assert!(unsafe { FDROPS } == 1, "C16: Fwd closure (and what it captured) must be dropped exactly once");
    kani::cover!(true, "done");
}

#[cfg(uazu_replay_retfwd)]
include!(env!("UAZU_STAKKER_REPLAY_FILE"));
