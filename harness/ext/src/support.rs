use std::time::{Duration, Instant};

/// Fixed base instant (Instant::now() is a syscall Kani cannot model)
pub fn base_instant() -> Instant {
    unsafe { std::mem::transmute::<[u64; 2], Instant>([1000u64, 0u64]) }
}
pub fn at(t0: Instant, secs: u64, nanos: u32) -> Instant {
    t0 + Duration::new(secs, nanos)
}
pub type Off = (u64, u32);
pub fn any_off(lo: u64, hi: u64) -> Off {
    let s: u64 = kani::any();
    let n: u32 = kani::any();
    kani::assume(s >= lo && s <= hi && n < 1_000_000_000);
    (s, n)
}
pub fn off_of(t0: Instant, i: Instant) -> Off {
    let d = i.saturating_duration_since(t0);
    (d.as_secs(), d.subsec_nanos())
}

/// Stub for std::hash::RandomState::new (HashMap `anymap` in Core::new): the real one reads thread-local
/// keys seeded by getrandom, which Kani cannot compile.  The anymap is not under test.
pub fn fixed_random_state() -> std::hash::RandomState {
    unsafe { std::mem::transmute::<[u64; 2], std::hash::RandomState>([0x1234_5678, 0x9abc_def0]) }
}

// ---- observation log shared by all closures of a harness (closures must be 'static: use a static) ----
pub const LOGN: usize = 10;
pub struct Log {
    pub n: usize,
    pub ids: [u8; LOGN],
    pub now: [Off; LOGN],
    pub drops: [u8; 32],
}
pub static mut LOG: Log = Log { n: 0, ids: [0; LOGN], now: [(0, 0); LOGN], drops: [0; 32] };

pub fn log_reset() {
    unsafe {
        LOG.n = 0;
        LOG.ids = [0; LOGN];
        LOG.now = [(0, 0); LOGN];
        LOG.drops = [0; 32];
    }
}
pub fn rec(id: u8, now: Off) {
    unsafe {
        if LOG.n < LOGN {
            LOG.ids[LOG.n] = id;
            LOG.now[LOG.n] = now;
        }
        LOG.n += 1;
    }
}
pub fn log_n() -> usize {
    unsafe { LOG.n }
}
pub fn log_id(i: usize) -> u8 {
    unsafe { LOG.ids[i] }
}
pub fn log_now(i: usize) -> Off {
    unsafe { LOG.now[i] }
}
pub fn drops(i: usize) -> u8 {
    unsafe { LOG.drops[i] }
}
/// position of `id` in the log, or LOGN if it did not run; asserts it ran at most once
pub fn pos(id: u8) -> usize {
    let mut p = LOGN;
    let mut i = 0;
    let n = log_n();
    while i < LOGN {
        if i < n && log_id(i) == id {
            assert!(p == LOGN, "C01: a closure ran twice");
            p = i;
        }
        i += 1;
    }
    p
}

/// Drop token: counts its drops
pub struct Tok(pub u8);
impl Drop for Tok {
    fn drop(&mut self) {
        unsafe { LOG.drops[self.0 as usize] += 1 };
    }
}
