// Run-loop harnesses over the public API: Stakker::new / run / drop, Core::{defer, lazy, idle, after, timer_*,
// now, deferrer, next_expiry}, Stakker::{next_wait, next_wait_max}, Deferrer::{defer, clone}.
// Concrete closure-program shapes (DESIGN P17/P20), symbolic instants / payloads / flags.
//
// @file crate=ext features=ms-nuq restrict_vtable=1 replay_cfg=uazu_replay_runloop
use crate::support::*;
use stakker::*;
use std::time::{Duration, Instant};

const STEP: u32 = 1 << 14;

fn off_add_ns(x: Off, d: u32) -> Off {
    let n = x.1 + d;
    if n >= 1_000_000_000 {
        (x.0 + 1, n - 1_000_000_000)
    } else {
        (x.0, n)
    }
}
fn omax(a: Off, b: Off) -> Off {
    if a > b { a } else { b }
}
fn now_of(c: &Core) -> Off {
    off_of(base_instant(), c.now())
}

// Deferrer handles obtained from Core::deferrer() are kept in statics, not captured by closures: a closure type
// that owns a Deferrer makes the drop glue type-recursive (closure -> Rc<Inner> -> queue -> Vec<Box<dyn FnOnce>> ->
// closure ...), which the solver has to unfold at every `dyn` drop (DESIGN P10).  The route under test is the same.
static mut DEF1: Option<Deferrer> = None;
static mut DEF2: Option<Deferrer> = None;
fn def1() -> &'static Deferrer {
    unsafe { DEF1.as_ref().unwrap() }
}
fn def2() -> &'static Deferrer {
    unsafe { DEF2.as_ref().unwrap() }
}

// A value whose Drop handler defers a closure through a Deferrer (no Core access in Drop)
struct DropDefer(u8);
impl Drop for DropDefer {
    fn drop(&mut self) {
        let id = self.0;
        let t = Tok(20 + id); // released when the deferred closure has run, or is dropped un-run
        def2().defer(move |s| {
            rec(id, now_of(s));
            drop(t);
        });
    }
}

const A: u8 = 1;
const B: u8 = 2;
const C: u8 = 3;
const D: u8 = 4;
const E: u8 = 5;
const X: u8 = 6;
const T: u8 = 7;
const G: u8 = 8;
const H: u8 = 9;
const L0: u8 = 10;
const L1: u8 = 11;
const L2: u8 = 12;
const F: u8 = 13;
const I1: u8 = 14;
const I2: u8 = 15;

fn new_stakker() -> (Stakker, Instant) {
    log_reset();
    let t0 = base_instant();
    let s = Stakker::new(t0);
    (s, t0)
}
fn all_saw(n: usize, cur: Off) {
    let mut i = 0;
    while i < LOGN {
        if i < n {
            assert!(log_now(i) == cur, "C15: an item observed a now() other than the greatest instant given");
        }
        i += 1;
    }
}

// ---- r_nested: submission order with re-entrant submissions through Core::defer and a Deferrer ----
fn nested() {
    let (mut s, t0) = new_stakker();
    assert!(s.start_instant() == t0 && s.now() == t0);
    unsafe { DEF1 = Some(s.deferrer()) };
    let v: u64 = kani::any();
    let tok = Tok(1);
    s.defer(move |s| {
        rec(A, now_of(s));
        let tokc = Tok(2);
        s.defer(move |s| {
            rec(C, now_of(s));
            s.defer(move |s| rec(E, now_of(s)));
            drop(tokc);
        });
        def1().defer(move |s| rec(D, now_of(s)));
        drop(tok);
    });
    s.defer(move |s| {
        rec(B, now_of(s));
        assert!(v == v);
    });
    assert!(log_n() == 0, "C01: a closure ran outside run()");
    let now1 = any_off(0, 200);
    let idle_left = s.run(at(t0, now1.0, now1.1), kani::any());
    assert!(!idle_left, "C06: run reports idle items although none were submitted");
    assert!(now_of(&s) == now1 && s.start_instant() == t0, "C15: now() is not the greatest instant given");
    let (pa, pb, pc, pd, pe) = (pos(A), pos(B), pos(C), pos(D), pos(E));
    assert!(pa < LOGN && pb < LOGN && pc < LOGN && pd < LOGN && pe < LOGN, "C01/C06: a submitted closure did not run by the end of run()");
    assert!(pa < pb && pb < pc && pc < pd && pd < pe, "C01: main-queue closures ran out of submission order");
    assert!(log_n() == 5, "C01: something ran twice");
    assert!(drops(1) == 1 && drops(2) == 1, "C16: captured value not dropped exactly once");
    all_saw(5, now1);
    assert!(s.next_expiry().is_none());
    kani::cover!(now1 > (60, 0), "queues recreated");
    kani::cover!(now1 == (0, 0), "non-advancing run");
    std::mem::forget(s);
}

// ---- r_dropdefer: closures submitted from a Drop handler (no Core access) ----
fn dropdefer() {
    let (mut s, t0) = new_stakker();
    unsafe { DEF2 = Some(s.deferrer()) };
    let dd = DropDefer(X);
    s.defer(move |s| {
        rec(A, now_of(s));
        let _keep = &dd; // dd is dropped when this closure finishes: its Drop defers X
    });
    s.defer(move |s| rec(B, now_of(s)));
    let now1 = any_off(0, 200);
    let _ = s.run(at(t0, now1.0, now1.1), false);
    let (pa, pb, px) = (pos(A), pos(B), pos(X));
    assert!(pa < LOGN && pb < LOGN && px < LOGN, "C01/C06: a submitted closure did not run by the end of run()");
    assert!(pa < pb && pb < px && log_n() == 3, "C01: closure deferred from a Drop handler ran out of order");
    assert!(drops(20 + X as usize) == 1, "C16: closure deferred from a Drop handler not released exactly once");
    all_saw(3, now1);
    assert!(now_of(&s) == now1, "C15: now() is not the greatest instant given");
    kani::cover!(now1 > (60, 0), "queues recreated");
    kani::cover!(now1 > (0, 0) && now1 < (0, 16000), "sub-resolution step");
    std::mem::forget(s);
}

// ---- r_second_run: a later run() at ANY instant (earlier, equal, later); Deferrer handles from before the first
//      run keep working, also across the periodic queue recreation (first run at a concrete instant past 60 s) ----
fn second_run(first_secs: u64) {
    let (mut s, t0) = new_stakker();
    unsafe { DEF2 = Some(s.deferrer()) };
    s.defer(move |s| rec(A, now_of(s)));
    let now1 = (first_secs, 500);
    let _ = s.run(at(t0, now1.0, now1.1), false);
    assert!(pos(A) == 0 && log_n() == 1 && log_now(0) == now1);
    s.defer(|s| rec(G, now_of(s)));
    def2().defer(|s| rec(H, now_of(s)));
    let now2 = any_off(0, 200);
    let _ = s.run(at(t0, now2.0, now2.1), false);
    let cur2 = omax(now1, now2);
    assert!(now_of(&s) == cur2, "C15: now() went backwards or is not the greatest instant given");
    let (pg, ph) = (pos(G), pos(H));
    assert!(pg == 1 && ph == 2 && log_n() == 3, "C01: closures of the second run missing, repeated or out of order");
    assert!(log_now(pg) == cur2 && log_now(ph) == cur2, "C15: an item observed a different now()");
    assert!(s.start_instant() == t0);
    kani::cover!(now2 < now1, "second run with an earlier instant");
    kani::cover!(now2 > now1, "second run later");
    std::mem::forget(s);
}
fn second_run_plain() {
    second_run(3);
}
fn second_run_recreated() {
    second_run(61);
}

// ---- r_timer: a fixed timer among queued calls: after the queued calls, never early, on time, only when time advances ----
fn timer_and_calls() {
    let (mut s, t0) = new_stakker();
    s.defer(move |s| rec(A, now_of(s)));
    let texp = any_off(0, 100);
    let key = s.timer_add(at(t0, texp.0, texp.1), |s| rec(T, now_of(s)));
    s.defer(move |s| rec(B, now_of(s)));
    assert!(log_n() == 0, "C07: a callback ran inside timer_add/defer");
    let ne = s.next_expiry();
    assert!(ne.is_some() && ne.unwrap() > t0 && off_of(t0, ne.unwrap()) <= off_add_ns(omax(texp, (0, 0)), STEP), "C09: next_expiry out of bounds");
    let now1 = any_off(0, 200);
    let _ = s.run(at(t0, now1.0, now1.1), false);
    let (pa, pb, pt) = (pos(A), pos(B), pos(T));
    assert!(pa < pb && pb < LOGN, "C01: queued calls missing or out of order");
    let ran = pt < LOGN;
    if ran {
        assert!(now1 >= texp, "C07: timer fired early");
        assert!(pb < pt, "C19: timer callback ran before calls that were already queued");
        assert!(log_now(pt) == now1, "C15: timer saw a different now()");
        assert!(!s.timer_del(key), "C10: key of a fired timer must answer false");
        assert!(s.next_expiry().is_none(), "C09: nothing pending");
    } else {
        assert!(now1 < off_add_ns(texp, STEP), "C08: timer not fired one step past its expiry");
        let ne2 = s.next_expiry();
        assert!(ne2.is_some() && off_of(t0, ne2.unwrap()) > now1, "C09: next_expiry must be after the current time");
    }
    assert!(log_n() == if ran { 3 } else { 2 });
    kani::cover!(ran, "fired");
    kani::cover!(!ran, "not fired");
    kani::cover!(texp == (0, 0), "expiry at the start instant");
    kani::cover!(ran && now1 < off_add_ns(texp, STEP), "fired within one step of its expiry");
    std::mem::forget(s);
}

// ---- r_wait: next_wait / next_wait_max agree with next_expiry ----
fn wait_functions() {
    let (mut s, t0) = new_stakker();
    let probe = any_off(0, 200);
    let pi = at(t0, probe.0, probe.1);
    let maxdur = Duration::new(kani::any::<u8>() as u64, kani::any::<u8>() as u32);
    // nothing pending
    assert!(s.next_expiry().is_none() && s.next_wait(pi).is_none(), "C09: None exactly when no timer is pending");
    assert!(s.next_wait_max(pi, maxdur, false) == maxdur && s.next_wait_max(pi, maxdur, true) == Duration::from_secs(0));
    let texp = any_off(0, 100);
    let _key = s.timer_add(at(t0, texp.0, texp.1), |s| rec(T, now_of(s)));
    let ne = s.next_expiry();
    assert!(ne.is_some() && ne.unwrap() > t0 && off_of(t0, ne.unwrap()) <= off_add_ns(texp, STEP), "C09: next_expiry out of bounds");
    let expect = ne.unwrap().saturating_duration_since(pi);
    assert!(s.next_wait(pi) == Some(expect), "C09: next_wait disagrees with next_expiry (saturating at zero)");
    assert!(s.next_wait_max(pi, maxdur, false) == if expect < maxdur { expect } else { maxdur }, "C09: next_wait_max disagrees with next_expiry / maxdur");
    assert!(s.next_wait_max(pi, maxdur, true) == Duration::from_secs(0), "C09: next_wait_max must be zero when pending");
    assert!(log_n() == 0);
    kani::cover!(pi > ne.unwrap(), "probe after the expiry (overdue)");
    kani::cover!(expect > maxdur, "capped by maxdur");
    kani::cover!(expect < maxdur && pi < ne.unwrap(), "wait for the timer");
    std::mem::forget(s);
}

// ---- r_timer2: a timer that is still pending after a first run (concrete instant) and a second run at ANY instant ----
fn timer_second_run() {
    let (mut s, t0) = new_stakker();
    let texp = any_off(2, 100);
    let key = s.timer_add(at(t0, texp.0, texp.1), |s| rec(T, now_of(s)));
    let now1 = (1, 0);
    let _ = s.run(at(t0, 1, 0), false);
    assert!(log_n() == 0, "C07: timer fired early");
    s.defer(move |s| rec(G, now_of(s)));
    let now2 = any_off(0, 200);
    let _ = s.run(at(t0, now2.0, now2.1), false);
    let cur2 = omax(now1, now2);
    let (pg, pt) = (pos(G), pos(T));
    assert!(pg == 0, "C01: queued call missing");
    if pt < LOGN {
        assert!(cur2 >= texp && now2 > now1, "C07/C15: timer fired early or without time advancing");
        assert!(pt == 1 && log_now(pt) == cur2, "C19/C15: timer ran before a queued call or saw another time");
        assert!(!s.timer_del(key) && s.next_expiry().is_none(), "C10/C09: fired timer still reported");
    } else {
        assert!(cur2 < off_add_ns(texp, STEP), "C08: timer not fired one step past its expiry");
        assert!(s.timer_del(key), "C10: pending timer must be deletable");
        assert!(s.next_expiry().is_none());
    }
    // a further run never fires it again
    let _ = s.run(at(t0, 300, 0), false);
    assert!(log_n() == if pt < LOGN { 2 } else { 1 }, "C08/C10: timer fired twice or after deletion");
    kani::cover!(pt < LOGN, "fired in the second run");
    kani::cover!(pt == LOGN && now2 > now1, "advanced, still pending, then deleted");
    kani::cover!(now2 <= now1, "non-advancing second run");
    std::mem::forget(s);
}

// ---- r_lazy: lazy items run after the main queue is exhausted, in submission order; main items created in the
//      lazy phase run before the next lazy item ----
fn lazy_order() {
    let (mut s, t0) = new_stakker();
    s.lazy(|s| rec(L0, now_of(s)));
    s.defer(|s| {
        rec(A, now_of(s));
        s.lazy(|s| {
            rec(L1, now_of(s));
            s.defer(|s| rec(F, now_of(s))); // main item created in the lazy phase
            s.lazy(|s| rec(L2, now_of(s)));
        });
        s.defer(|s| rec(C, now_of(s)));
    });
    let now1 = any_off(0, 200);
    let more = s.run(at(t0, now1.0, now1.1), kani::any());
    assert!(!more, "C06: run reports idle items although none exist");
    let (pl0, pa, pl1, pf, pl2, pc) = (pos(L0), pos(A), pos(L1), pos(F), pos(L2), pos(C));
    assert!(pa < LOGN && pc < LOGN && pl0 < LOGN && pl1 < LOGN && pl2 < LOGN && pf < LOGN && log_n() == 6, "C06: main/lazy work left when run returned");
    assert!(pa < pc && pc < pl0, "C06: a lazy item started while main-queue work was pending");
    assert!(pl0 < pl1 && pl1 < pf && pf < pl2, "C06: lazy items out of submission order, or a main item of the lazy phase overtaken");
    all_saw(6, now1);
    kani::cover!(now1 > (60, 0), "queues recreated");
    std::mem::forget(s);
}

// ---- r_idle_req / r_idle_noreq: idle items only on request, one per call, first, oldest first; return value ----
fn idle_setup(s: &mut Stakker) {
    s.idle(|s| {
        rec(I1, now_of(s));
        s.defer(|s| rec(X, now_of(s))); // work created by the idle item must be done by the same run
    });
    s.idle(|s| rec(I2, now_of(s)));
    s.defer(|s| rec(A, now_of(s)));
}
fn idle_noreq() {
    let (mut s, t0) = new_stakker();
    idle_setup(&mut s);
    let now1 = any_off(0, 200);
    let more = s.run(at(t0, now1.0, now1.1), false);
    assert!(more && log_n() == 1 && pos(A) == 0 && log_now(0) == now1, "C06: an idle item ran without being requested, or wrong return value");
    std::mem::forget(s);
}
fn idle_req() {
    let (mut s, t0) = new_stakker();
    idle_setup(&mut s);
    let now1 = any_off(0, 200);
    let more = s.run(at(t0, now1.0, now1.1), true);
    assert!(more, "C06: run must report that an idle item remains");
    assert!(pos(I1) == 0 && pos(A) == 1 && pos(X) == 2 && log_n() == 3, "C06: exactly one idle item per call, the oldest, first, and its work done in the same run");
    assert!(log_now(0) == (0, 0), "C15: the idle item may only see the previous time");
    assert!(log_now(1) == now1 && log_now(2) == now1, "C15: an item observed a different now()");
    std::mem::forget(s);
}

// ---- r_idle_inner: an idle item submitted from inside a running item is reported by the return value ----
fn idle_inner() {
    let (mut s, t0) = new_stakker();
    s.defer(|s| {
        rec(A, now_of(s));
        s.idle(|s| rec(I2, now_of(s)));
    });
    let now1 = any_off(0, 200);
    let more = s.run(at(t0, now1.0, now1.1), kani::any());
    assert!(more, "C06: run must return true exactly when idle items remain");
    assert!(log_n() == 1 && pos(A) == 0, "C06: an idle item ran in the call that created it");
    let more = s.run(at(t0, now1.0, now1.1), true);
    assert!(!more && pos(I2) == 1 && log_n() == 2);
    std::mem::forget(s);
}

// ---- r_drop: a Stakker dropped with pending closures drops each exactly once without running it,
//      including closures deferred by their Drop handlers while the queue is being discarded ----
fn drop_pending() {
    let (mut s, _t0) = new_stakker();
    unsafe { DEF2 = Some(s.deferrer()) };
    let t1 = Tok(1);
    let dd = DropDefer(X); // its Drop defers X (with token 3) while the Stakker is discarding its queue
    s.defer(move |s| {
        rec(A, now_of(s));
        drop(t1);
        let _k = &dd;
    });
    let t2 = Tok(2);
    s.lazy(move |s| {
        rec(L0, now_of(s));
        drop(t2);
    });
    let t4 = Tok(4);
    s.idle(move |s| {
        rec(I1, now_of(s));
        drop(t4);
    });
    let t5 = Tok(5);
    let _k = s.timer_add(base_instant(), move |s| {
        rec(T, now_of(s));
        drop(t5);
    });
    drop(s);
    assert!(log_n() == 0, "C01: a pending closure ran although the Stakker was dropped");
    assert!(drops(1) == 1 && drops(2) == 1 && drops(4) == 1 && drops(5) == 1, "C01/C16: a pending closure was not dropped exactly once");
    assert!(drops(20 + X as usize) == 1, "C01/C16: a closure deferred from a Drop handler while the Stakker was being dropped was not dropped exactly once");
    kani::cover!(true, "dropped");
}

macro_rules! run_harness {
    ($name:ident, $body:ident) => {
        #[kani::proof]
        #[kani::unwind(12)]
        #[kani::stub(std::hash::RandomState::new, crate::support::fixed_random_state)]
        fn $name() {
            $body();
        }
    };
}

// Common to the r_* family:
//   @stub   std::hash::RandomState::new -> fixed keys (anymap HashMap is not under test)
//   @assume feature set multi-stakker,no-unsafe-queue,inter-thread (Kani cannot compile the TCell/TLCell/global/
//           thread-local variants: DESIGN P9); BTreeMap modelled by harness/model/vmap.rs

// @verif prop=C01,C15,C06,C18 tier=quick timeout=1200 mem=24 unwind=12 unwindset=drop_glue::<\[.*Stakker\)>\]>\.0$:1 alt=ms-nu
// @enc Stakker::{new,run} Core::{defer,deferrer,now,start_instant} Stakker::next_expiry Deferrer::{defer,clone,swap_queue,set_queue} deferrer/inline.rs queue/boxed.rs
// @sym payload; idle flag; run instant t0+(0..200 s, any ns) (both sides of the 60 s queue-recreation branch)
// @bound fixed closure program: roots A,B; A defers C (Core::defer) and D (Deferrer); C defers E; one run()
// @stub std::hash::RandomState::new -> fixed keys
// @assume multi-stakker,no-unsafe-queue build; closures' Vec dropped only when empty (checked by unwinding assertion)
run_harness!(r_nested, nested);
// @verif prop=C01,C15,C18 tier=quick timeout=1200 mem=24 unwind=12 unwindset=drop_glue::<\[.*Stakker\)>\]>\.0$:1 alt=ms-nu
// @enc Stakker::{new,run} Core::{defer,deferrer,now} Deferrer::defer (from a Drop handler) Deferrer::set_queue (recreation)
// @sym run instant t0+(0..200 s, any ns)
// @bound A (captures a value whose Drop defers X), B; one run
// @stub std::hash::RandomState::new -> fixed keys
// @assume multi-stakker,no-unsafe-queue build
run_harness!(r_dropdefer, dropdefer);
// @verif prop=C19,C15 tier=quick timeout=1200 mem=24 unwind=12 unwindset=drop_glue::<\[.*Stakker\)>\]>\.0$:1,::advance\.1$:2,::advance\.0$:3,::add\.0$:2,::add\.1$:1
// @enc Stakker::{run,next_expiry,next_wait,next_wait_max} Core::{timer_add,timer_del,defer,now} Timers::{add,advance,del,next_expiry}
// @sym timer expiry t0+(0..100 s); run instant t0+(0..200 s); probe instant and maxdur for the wait functions
// @bound A, fixed timer T, B; one run
// @stub std::hash::RandomState::new -> fixed keys
// @assume multi-stakker,no-unsafe-queue build; BTreeMap modelled by harness/model/vmap.rs
run_harness!(r_timer, timer_and_calls);
// @verif prop=C06,C15,C01,C18 tier=quick timeout=1200 mem=24 unwind=12 unwindset=drop_glue::<\[.*Stakker\)>\]>\.0$:1 alt=ms-nu
// @enc Stakker::run Core::{defer,lazy,now}
// @sym run instant t0+(0..200 s); idle flag
// @bound lazy L0; main A (submits lazy L1 -> main F + lazy L2; main C); one run
// @stub std::hash::RandomState::new -> fixed keys
// @assume multi-stakker,no-unsafe-queue build
run_harness!(r_lazy, lazy_order);
// @verif prop=C06,C15,C18,C01 tier=quick timeout=1200 mem=24 unwind=12 unwindset=drop_glue::<\[.*Stakker\)>\]>\.0$:1 alt=ms-nu
// @enc Stakker::run Core::{defer,idle,now}
// @sym run instant t0+(0..200 s)
// @bound idle I1 (defers X), idle I2, main A; run(idle)
// @stub std::hash::RandomState::new -> fixed keys
// @assume multi-stakker,no-unsafe-queue build
run_harness!(r_idle_req, idle_req);
// @verif prop=C06,C15,C18 tier=quick timeout=1200 mem=24 unwind=12 unwindset=drop_glue::<\[.*Stakker\)>\]>\.0$:1 alt=ms-nu
// @enc Stakker::run Core::{defer,idle,now}
// @sym run instant t0+(0..200 s)
// @bound idle I1, idle I2, main A; run(no idle)
// @stub std::hash::RandomState::new -> fixed keys
// @assume multi-stakker,no-unsafe-queue build
run_harness!(r_idle_noreq, idle_noreq);
// @verif prop=C06,C15 tier=quick timeout=1200 mem=24 unwind=12 unwindset=drop_glue::<\[.*Stakker\)>\]>\.0$:1
// @enc Stakker::run Core::{defer,idle,now}
// @sym run instant t0+(0..200 s); idle flag of the first run
// @bound main A submits idle I2; run; run(idle)
// @stub std::hash::RandomState::new -> fixed keys
// @assume multi-stakker,no-unsafe-queue build
run_harness!(r_idle_inner, idle_inner);
// @verif prop=C09 tier=quick timeout=1200 mem=24 unwind=12 unwindset=drop_glue::<\[.*Stakker\)>\]>\.0$:1,::add\.0$:2,::add\.1$:1
// @enc Stakker::{next_expiry,next_wait,next_wait_max} Core::timer_add Timers::{add,next_expiry}
// @sym timer expiry t0+(0..100 s); probe instant t0+(0..200 s) (before and after the expiry); maxdur 0..255 s
// @bound no timer, then one fixed timer; no run
// @stub std::hash::RandomState::new -> fixed keys
// @assume multi-stakker,no-unsafe-queue build; BTreeMap modelled by harness/model/vmap.rs
run_harness!(r_wait, wait_functions);
// @verif prop=C15,C01 tier=quick timeout=1200 mem=24 unwind=12 unwindset=drop_glue::<\[.*Stakker\)>\]>\.0$:1
// @enc Stakker::run Core::{defer,deferrer,now,start_instant} Deferrer::defer
// @sym second run instant t0+(0..200 s, any ns): earlier, equal or later than the first (t0+3 s)
// @bound A; run(t0+3 s); G, H (Deferrer handle from before); run(any)
// @stub std::hash::RandomState::new -> fixed keys
// @assume multi-stakker,no-unsafe-queue build
run_harness!(r_second_run, second_run_plain);
// @verif prop=C15,C01,C18 tier=quick timeout=1200 mem=24 unwind=12 unwindset=drop_glue::<\[.*Stakker\)>\]>\.0$:1 alt=ms-nu
// @enc Stakker::run (queue recreation branch) Deferrer::{set_queue,defer}
// @sym second run instant t0+(0..200 s, any ns)
// @bound A; run(t0+61 s) which recreates all queues; G, H (Deferrer handle from before the recreation); run(any)
// @stub std::hash::RandomState::new -> fixed keys
// @assume multi-stakker,no-unsafe-queue build
run_harness!(r_second_run_recreated, second_run_recreated);
// @verif prop=C07,C08,C10,C15,C19,C18 tier=off timeout=1200 mem=24 unwind=12 unwindset=drop_glue::<\[.*Stakker\)>\]>\.0$:1,::advance\.1$:2,::advance\.0$:3,::add\.0$:2,::add\.1$:1
// @enc Stakker::{run,next_expiry} Core::{timer_add,timer_del,defer,now} Timers::{add,advance,del}
// @sym timer expiry t0+(2..100 s); second run instant t0+(0..200 s): before, at, after the first (t0+1 s) and the expiry
// @bound timer; run(t0+1 s); G; run(any); delete if pending; run(t0+300 s)
// @stub std::hash::RandomState::new -> fixed keys
// @assume multi-stakker,no-unsafe-queue build; BTreeMap modelled by harness/model/vmap.rs
run_harness!(r_timer2, timer_second_run);
// @verif prop=C01,C16,C05,C18 tier=quick timeout=1200 mem=24 unwind=12 unwindset=drop_glue::<\[.*Stakker\)>\]>\.0$:3 alt=ms-nu
// @enc Stakker::drop Core::{defer,lazy,idle,timer_add} Deferrer::{defer,swap_queue}
// @sym none (fixed script; drop counters)
// @bound one pending item in each of the main, lazy, idle and timer queues; the main item's capture defers another closure from its Drop handler; Stakker dropped without running
// @stub std::hash::RandomState::new -> fixed keys
// @assume multi-stakker,no-unsafe-queue build
run_harness!(r_drop, drop_pending);

#[cfg(uazu_replay_runloop)]
include!(env!("UAZU_STAKKER_REPLAY_FILE"));
