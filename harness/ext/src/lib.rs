// Harnesses over stakker's public API (Stakker-level): C01 C05 C06 C09 C12 C13 C15 C18 C19 C20
#![allow(dead_code, unused_imports, static_mut_refs)]
#[cfg(kani)]
mod support;
#[cfg(kani)]
mod runloop;
#[cfg(kani)]
mod retfwd;
#[cfg(kani)]
mod syncs;
