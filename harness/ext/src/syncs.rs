// Waker bookkeeping (C12) and Channel (C13) through the public API, executed sequentially at operation /
// critical-section granularity (fine-grained interleavings of the bitmap protocol are C11's).
//
// @file crate=ext features=ms-nuq restrict_vtable=1 replay_cfg=uazu_replay_syncs
use crate::support::*;
use stakker::sync::{Channel, ChannelGuard, Waker};
use stakker::*;

static mut POLLS: u8 = 0; // poll-waker callbacks
static mut H: [[u8; 2]; 4] = [[0; 2]; 4]; // per handler id: [calls with deleted=false, calls with deleted=true]
static mut LAST_DELETED: [bool; 4] = [false; 4]; // the most recent call of handler i had deleted=true
static mut AFTER_DELETED: [u8; 4] = [0; 4]; // calls of handler i after its deleted=true call
fn sreset() {
    unsafe {
        POLLS = 0;
        H = [[0; 2]; 4];
        LAST_DELETED = [false; 4];
        AFTER_DELETED = [0; 4];
    }
    log_reset();
}
fn handler(id: usize) -> impl FnMut(&mut Stakker, bool) + 'static {
    move |_s, deleted| unsafe {
        if H[id][1] > 0 {
            AFTER_DELETED[id] += 1;
        }
        H[id][deleted as usize] += 1;
        LAST_DELETED[id] = deleted;
    }
}
fn h(id: usize, del: bool) -> u8 {
    unsafe { H[id][del as usize] }
}
fn polls() -> u8 {
    unsafe { POLLS }
}
fn new_stakker() -> Stakker {
    sreset();
    let mut s = Stakker::new(base_instant());
    s.set_poll_waker(|| unsafe { POLLS += 1 });
    s
}

macro_rules! sync_harness {
    ($name:ident, $body:expr) => {
        #[kani::proof]
        #[kani::unwind(10)]
        #[kani::stub(std::hash::RandomState::new, crate::support::fixed_random_state)]
        fn $name() {
            $body;
        }
    };
}

// ---- C12: wake / drop / poll_wake / slot reuse ----
fn waker_lifecycle() {
    let mut s = new_stakker();
    let w1 = s.waker(handler(1));
    let w2 = s.waker(handler(2));
    let wake1: bool = kani::any();
    let wake2: bool = kani::any();
    if wake1 {
        w1.wake();
    }
    if wake2 {
        w2.wake();
    }
    assert!(polls() == if wake1 || wake2 { 1 } else { 0 }, "C11: first wake must invoke the poll-waker callback, later ones piggy-back");
    assert!(h(1, false) == 0 && h(2, false) == 0, "handlers run only in poll_wake");
    drop(w1);
    assert!(polls() >= 1, "C12: dropping a Waker must request a poll");
    s.poll_wake();
    assert!(h(1, true) == 1, "C12: a dropped Waker's handler must be called exactly once with deleted=true");
    assert!(unsafe { LAST_DELETED[1] } && unsafe { AFTER_DELETED[1] } == 0, "C12: the deleted=true call must be the last call of that handler");
    assert!(h(1, false) <= 1, "spurious calls allowed, but not more than one per collection");
    assert!(h(2, true) == 0, "C12: dropping one Waker reported another as deleted");
    assert!(h(2, false) == if wake2 { 1 } else { 0 }, "C11/C12: a pending wake of another Waker was lost or invented");
    // a new Waker reuses the slot: it must not receive the old one's deletion
    let w3 = s.waker(handler(3));
    s.poll_wake();
    assert!(h(3, true) == 0 && h(3, false) == 0, "C12: a new Waker received calls meant for the one whose slot it reuses");
    w3.wake();
    w2.wake();
    s.poll_wake();
    assert!(h(3, false) == 1 && h(3, true) == 0, "C11: wake of the new Waker not delivered");
    assert!(h(2, false) == if wake2 { 2 } else { 1 } && h(2, true) == 0);
    assert!(h(1, true) == 1 && unsafe { AFTER_DELETED[1] } == 0, "C12: handler called again after deleted=true");
    drop(w2);
    drop(w3);
    s.poll_wake();
    assert!(h(2, true) == 1 && h(3, true) == 1 && h(1, true) == 1, "C12: each dropped Waker reported exactly once");
    s.poll_wake();
    assert!(h(2, true) == 1 && h(3, true) == 1 && h(1, true) == 1 && unsafe { AFTER_DELETED[2] + AFTER_DELETED[3] } == 0);
    kani::cover!(wake1 && wake2, "both woken before the drop");
    kani::cover!(!wake1 && !wake2, "drop without a preceding wake");
    std::mem::forget(s);
}
// @verif prop=C12,C11,C18 tier=off timeout=1200 mem=24 unwind=10 unwindset=drop_glue::<\[.*Stakker\)>\]>\.0$:1,Leaf(::|5)drain.*\.0$:3
// @enc Stakker::{set_poll_waker,poll_wake,process_waker_drops} Core::waker WakeHandlers::{new,add,del,wake_list,drop_list,handler_borrow,handler_restore} Waker::{wake,drop} BitMap::{new,set,drain} Leaf::{set,drain}
// @sym whether each of two wakers is woken before the first is dropped
// @bound 3 wakers (the third reuses the first one's slot), 5 poll_wake calls, executed sequentially at operation granularity
// @stub std::hash::RandomState::new -> fixed keys
// @assume sequential execution (interleavings inside wake/poll_wake: C11 model); multi-stakker,no-unsafe-queue build; atomics through the vstd shim with real semantics
sync_harness!(wk_lifecycle, waker_lifecycle());

// smaller scripts (the full lifecycle above is the thorough tier)
fn waker_wake_then_drop(wake1: bool) {
    let mut s = new_stakker();
    let w1 = s.waker(handler(1));
    if wake1 {
        w1.wake();
        assert!(polls() == 1, "C11: wake must invoke the poll-waker callback");
    }
    drop(w1);
    assert!(polls() >= 1, "C12: dropping a Waker must request a poll");
    s.poll_wake();
    assert!(h(1, true) == 1 && unsafe { LAST_DELETED[1] } && unsafe { AFTER_DELETED[1] } == 0, "C12: exactly one deleted=true call, and it is the last");
    assert!(h(1, false) <= 1);
    s.poll_wake();
    assert!(h(1, true) == 1 && unsafe { AFTER_DELETED[1] } == 0, "C12: handler called again after deleted=true");
    kani::cover!(true, "done");
    std::mem::forget(s);
}
// @verif prop=C12,C11,C18 tier=quick timeout=1200 mem=24 unwind=10 unwindset=drop_glue::<\[.*Stakker\)>\]>\.0$:1,Leaf(::|5)drain.*\.0$:3 alt=ms-nu
// @enc Stakker::{set_poll_waker,poll_wake,process_waker_drops} Core::waker WakeHandlers::{add,del,wake_list,drop_list,handler_borrow,handler_restore} Waker::{wake,drop} BitMap::{set,drain}
// @sym none (control flow must stay concrete: symbolic wake flags make every bitmap index symbolic and the query does not finish)
// @bound 1 waker: [wake]; drop; poll_wake; poll_wake
// @stub std::hash::RandomState::new -> fixed keys
// @assume sequential execution at operation granularity; multi-stakker,no-unsafe-queue build
sync_harness!(wk_wake_then_drop, waker_wake_then_drop(true));
// @verif prop=C12,C11 tier=quick timeout=1200 mem=24 unwind=10 unwindset=drop_glue::<\[.*Stakker\)>\]>\.0$:1,Leaf(::|5)drain.*\.0$:3
// @enc Stakker::{set_poll_waker,poll_wake,process_waker_drops} Core::waker WakeHandlers::{add,del,wake_list,drop_list,handler_borrow,handler_restore} Waker::{wake,drop} BitMap::{set,drain}
// @sym none (control flow must stay concrete: symbolic wake flags make every bitmap index symbolic and the query does not finish)
// @bound 1 waker: drop (never woken); poll_wake; poll_wake
// @stub std::hash::RandomState::new -> fixed keys
// @assume sequential execution at operation granularity; multi-stakker,no-unsafe-queue build
sync_harness!(wk_drop_unwoken, waker_wake_then_drop(false));

fn waker_slot_reuse() {
    let mut s = new_stakker();
    let w1 = s.waker(handler(1));
    let w2 = s.waker(handler(2));
    drop(w1);
    s.poll_wake();
    assert!(h(1, true) == 1 && h(2, true) == 0 && h(2, false) == 0, "C12: dropping one Waker touched another's handler");
    let w3 = s.waker(handler(3)); // reuses w1's slot
    w3.wake();
    s.poll_wake();
    assert!(h(3, false) == 1 && h(3, true) == 0, "C12: a new Waker received the deleted=true call of the one whose slot it reuses / lost its wake");
    assert!(h(1, true) == 1 && unsafe { AFTER_DELETED[1] } == 0);
    drop(w2);
    drop(w3);
    s.poll_wake();
    assert!(h(2, true) == 1 && h(3, true) == 1 && h(1, true) == 1, "C12: each dropped Waker reported exactly once");
    kani::cover!(true, "done");
    std::mem::forget(s);
}
// @verif prop=C12 tier=quick timeout=1200 mem=24 unwind=10 unwindset=drop_glue::<\[.*Stakker\)>\]>\.0$:1,Leaf(::|5)drain.*\.0$:3
// @enc as wk_wake_then_drop, plus slab slot reuse in WakeHandlers::add
// @sym none (fixed script)
// @bound 3 wakers (the third reuses the first one's slot); 3 poll_wake calls
// @stub std::hash::RandomState::new -> fixed keys
// @assume sequential execution at operation granularity; multi-stakker,no-unsafe-queue build
sync_harness!(wk_slot_reuse, waker_slot_reuse());

// ---- C13: channel at critical-section granularity ----
static mut FWD: [u32; 8] = [0; 8];
static mut FWDN: usize = 0;
fn fwd_log() -> Fwd<u32> {
    Fwd::new(|m: u32| unsafe {
        if FWDN < 8 {
            FWD[FWDN] = m;
        }
        FWDN += 1;
    })
}
fn fwdn() -> usize {
    unsafe { FWDN }
}
fn fwd(i: usize) -> u32 {
    unsafe { FWD[i] }
}
fn channel_open_close(collect_first: bool) {
    let mut s = new_stakker();
    unsafe { FWDN = 0 };
    let (ch, guard): (Channel<u32>, ChannelGuard) = Channel::new(&mut s, fwd_log());
    let ch2 = ch.clone(); // second sender
    let (a, b, c, d): (u32, u32, u32, u32) = (kani::any(), kani::any(), kani::any(), kani::any());
    assert!(!ch.is_closed());
    assert!(ch.send(a), "C13: send on an open channel must return true");
    assert!(polls() == 1, "C13: an accepted message on an empty queue must have a wake-up pending");
    assert!(ch2.send(b) && ch.send(c));
    assert!(fwdn() == 0, "messages are forwarded only by poll_wake");
    s.poll_wake();
    assert!(fwdn() == 3 && fwd(0) == a && fwd(1) == b && fwd(2) == c, "C13: accepted messages must be forwarded exactly once, in order");
    s.poll_wake();
    assert!(fwdn() == 3, "C13: message forwarded twice");
    assert!(ch2.send(d));
    assert!(polls() == 2, "C13: a message accepted after a collection needs a new wake-up");
    if collect_first {
        s.poll_wake();
        assert!(fwdn() == 4 && fwd(3) == d);
    }
    drop(guard);
    assert!(ch.is_closed() && ch2.is_closed(), "C13: is_closed must be true after the guard is dropped");
    assert!(!ch.send(a) && !ch2.send(b), "C13: send must return false after close");
    s.poll_wake();
    s.poll_wake();
    assert!(fwdn() == if collect_first { 4 } else { 3 }, "C13: nothing may be forwarded after the guard is dropped (pending messages are discarded)");
    kani::cover!(true, "done");
    std::mem::forget(s);
}
// @verif prop=C13,C18 tier=off timeout=1200 mem=24 unwind=10 unwindset=drop_glue::<\[.*Stakker\)>\]>\.0$:1,Leaf(::|5)drain.*\.0$:3
// @enc Channel::{new,send,is_closed,clone} ChannelGuard::drop Closable::close Core::waker Stakker::poll_wake Waker::{wake,drop} Fwd::{new,fwd}
// @sym 4 message values (control flow concrete)
// @bound 2 senders, 4 accepted messages, 5 poll_wake calls, guard dropped; one step = one critical section
// @stub std::hash::RandomState::new -> fixed keys
// @assume critical-section granularity (all channel state is under one mutex, wake() is called inside it); a change that touches shared state outside the lock would not be seen
sync_harness!(ch_open_close, channel_open_close(true));
// @verif prop=C13,C18 tier=off timeout=1200 mem=24 unwind=10 unwindset=drop_glue::<\[.*Stakker\)>\]>\.0$:1,Leaf(::|5)drain.*\.0$:3
// @enc Channel::{new,send,is_closed,clone} ChannelGuard::drop Closable::close Core::waker Stakker::poll_wake Waker::{wake,drop} Fwd::{new,fwd}
// @sym 4 message values (control flow concrete)
// @bound 2 senders, 4 accepted messages, 5 poll_wake calls, guard dropped with a message still queued; one step = one critical section
// @stub std::hash::RandomState::new -> fixed keys
// @assume critical-section granularity (all channel state is under one mutex, wake() is called inside it); a change that touches shared state outside the lock would not be seen
sync_harness!(ch_close_pending, channel_open_close(false));

// A send that lands while the handler is forwarding a batch (the lock is released during forwarding): the message
// must not be lost and must have a wake-up pending.  The "other thread" is the Fwd callback itself.
static mut CHAN: Option<Channel<u32>> = None;
fn channel_send_during_forward() {
    let mut s = new_stakker();
    unsafe { FWDN = 0 };
    let f = Fwd::new(|m: u32| unsafe {
        if FWDN < 8 {
            FWD[FWDN] = m;
        }
        FWDN += 1;
        if m == 1 {
            // a sender thread's send() lands here, between the handler taking the batch and returning
            #[allow(static_mut_refs)]
            let ok = CHAN.as_ref().unwrap().send(2);
            assert!(ok);
        }
    });
    let (ch, guard) = Channel::new(&mut s, f);
    unsafe { CHAN = Some(ch.clone()) };
    assert!(ch.send(1));
    s.poll_wake();
    assert!(fwdn() == 1 && fwd(0) == 1);
    assert!(polls() == 2, "C13: message accepted during forwarding has no wake-up pending");
    s.poll_wake();
    assert!(fwdn() == 2 && fwd(1) == 2, "C13: a message accepted during forwarding was lost");
    s.poll_wake();
    assert!(fwdn() == 2);
    kani::cover!(true, "done");
    std::mem::forget(guard);
    std::mem::forget(s);
}
// @verif prop=C13 tier=off timeout=1200 mem=24 unwind=10 unwindset=drop_glue::<\[.*Stakker\)>\]>\.0$:1,Leaf(::|5)drain.*\.0$:3
// @enc Channel::{new,send} (wake handler closure of Channel::new) Stakker::poll_wake
// @sym none (fixed script)
// @bound 2 messages; the second send happens inside the forwarding window of the first collection
// @stub std::hash::RandomState::new -> fixed keys
// @assume critical-section granularity
sync_harness!(ch_send_during_forward, channel_send_during_forward());

fn channel_simple() {
    let mut s = new_stakker();
    unsafe { FWDN = 0 };
    let (ch, guard): (Channel<u32>, ChannelGuard) = Channel::new(&mut s, fwd_log());
    let a: u32 = kani::any();
    assert!(!ch.is_closed());
    assert!(ch.send(a), "C13: send on an open channel must return true");
    assert!(polls() == 1, "C13: an accepted message on an empty queue must have a wake-up pending");
    assert!(fwdn() == 0, "messages are forwarded only by poll_wake");
    s.poll_wake();
    assert!(fwdn() == 1 && fwd(0) == a, "C13: accepted message must be forwarded exactly once");
    s.poll_wake();
    assert!(fwdn() == 1, "C13: message forwarded twice");
    drop(guard);
    assert!(ch.is_closed(), "C13: is_closed must be true after the guard is dropped");
    assert!(!ch.send(a), "C13: send must return false after close");
    s.poll_wake();
    assert!(fwdn() == 1, "C13: nothing may be forwarded after the guard is dropped");
    kani::cover!(true, "done");
    std::mem::forget(s);
}
// @verif prop=C13,C18 tier=quick timeout=1200 mem=24 unwind=10 unwindset=drop_glue::<\[.*Stakker\)>\]>\.0$:1,Leaf(::|5)drain.*\.0$:3 alt=ms-nu
// @enc Channel::{new,send,is_closed} ChannelGuard::drop Closable::close Core::waker Stakker::poll_wake Waker::{wake,drop} Fwd::{new,fwd}
// @sym message value
// @bound 1 sender, 1 accepted message, 3 poll_wake calls, guard dropped, 1 rejected message; one step = one critical section
// @stub std::hash::RandomState::new -> fixed keys
// @assume critical-section granularity (sequential Mutex stand-in of harness/model/vstd.rs); multi-stakker,no-unsafe-queue build
sync_harness!(ch_simple, channel_simple());

fn channel_two_senders() {
    let mut s = new_stakker();
    unsafe { FWDN = 0 };
    let (ch, guard): (Channel<u32>, ChannelGuard) = Channel::new(&mut s, fwd_log());
    let ch2 = ch.clone();
    let (a, b, c): (u32, u32, u32) = (kani::any(), kani::any(), kani::any());
    assert!(ch.send(a) && ch2.send(b));
    assert!(polls() == 1, "C13: one wake-up covers the batch");
    s.poll_wake();
    assert!(fwdn() == 2 && fwd(0) == a && fwd(1) == b, "C13: accepted messages must be forwarded exactly once, in the order sent");
    assert!(ch2.send(c));
    assert!(polls() == 2, "C13: a message accepted after a collection needs a new wake-up");
    s.poll_wake();
    assert!(fwdn() == 3 && fwd(2) == c, "C13: message lost or duplicated");
    kani::cover!(true, "done");
    std::mem::forget(guard);
    std::mem::forget(s);
}
// @verif prop=C13 tier=off timeout=1200 mem=24 unwind=10 unwindset=drop_glue::<\[.*Stakker\)>\]>\.0$:1,Leaf(::|5)drain.*\.0$:3,Channel.*3new.*\.0$:3
// @enc Channel::{new,send,clone} Core::waker Stakker::poll_wake Waker::wake Fwd::fwd
// @sym 3 message values
// @bound 2 senders, 3 accepted messages in 2 batches, 2 poll_wake calls
// @stub std::hash::RandomState::new -> fixed keys
// @assume critical-section granularity (sequential Mutex stand-in); multi-stakker,no-unsafe-queue build
sync_harness!(ch_two_senders, channel_two_senders());

fn channel_close_empty() {
    let mut s = new_stakker();
    unsafe { FWDN = 0 };
    let (ch, guard): (Channel<u32>, ChannelGuard) = Channel::new(&mut s, fwd_log());
    let ch2 = ch.clone();
    assert!(!ch.is_closed() && !ch2.is_closed());
    drop(guard);
    assert!(ch.is_closed() && ch2.is_closed(), "C13: every handle must see the channel closed once the guard is dropped");
    let a: u32 = kani::any();
    assert!(!ch.send(a) && !ch2.send(a), "C13: send must return false after close");
    s.poll_wake();
    s.poll_wake();
    assert!(fwdn() == 0, "C13: nothing may be forwarded after the guard is dropped");
    // the channel's Waker was dropped by close(): its handler is gone after the first poll_wake
    kani::cover!(true, "done");
    std::mem::forget(s);
}
// @verif prop=C13,C12 tier=quick timeout=1200 mem=24 unwind=10 unwindset=drop_glue::<\[.*Stakker\)>\]>\.0$:1,Leaf(::|5)drain.*\.0$:3
// @enc Channel::{new,send,is_closed,clone} ChannelGuard::drop Closable::close Waker::drop Stakker::{poll_wake,process_waker_drops}
// @sym message value
// @bound 2 handles, guard dropped at once, 2 rejected sends, 2 poll_wake calls
// @stub std::hash::RandomState::new -> fixed keys
// @assume critical-section granularity (sequential Mutex stand-in); multi-stakker,no-unsafe-queue build
sync_harness!(ch_close_empty, channel_close_empty());

#[cfg(uazu_replay_syncs)]
include!(env!("UAZU_STAKKER_REPLAY_FILE"));
