// Model of the part of std::collections::BTreeMap that src/timers/mod.rs uses:
// new, iter().next(), split_off, into_iter, insert, remove, entry/Vacant/insert.
//
// Two slots, straight-line code (no loops, constant indices only: cheap for the solver).
// Invariant: v0.is_none() => v1.is_none(); both present => k0 < k1.
// It behaves like BTreeMap *provided* the key order is a total order over the keys that
// meet; that precondition (which std's map silently relies on, and which the cyclic
// WrapTime order only has while all keys lie within 2^31 ticks) is asserted on every
// operation, as is the capacity bound of the model.
//
// Compiled only under cfg(all(kani, not(test), feature = "uazu-stakker-verif")):
// `cargo kani playback` (cfg(test)) and every ordinary build use std's map.

use std::cmp::Ordering;
use std::mem;

pub const CAP: usize = 2;

pub struct BTreeMap<K, V> {
    k0: Option<K>,
    k1: Option<K>,
    v0: Option<V>,
    v1: Option<V>,
}

pub enum Entry<'a, K, V> {
    Vacant(VacantEntry<'a, K, V>),
    #[allow(dead_code)]
    Occupied(OccupiedEntry),
}
pub struct OccupiedEntry;
pub struct VacantEntry<'a, K, V> {
    map: &'a mut BTreeMap<K, V>,
    key: K,
}

impl<'a, K: Ord + Copy, V> VacantEntry<'a, K, V> {
    pub fn insert(self, v: V) {
        self.map.insert_new(self.key, v);
    }
}

fn rev_ok(a: Ordering, b: Ordering) -> bool {
    a == b.reverse()
}

// p cmp k, or Less when the slot is empty (never used in that case)
fn cmp_slot<K: Ord>(p: &K, k: &Option<K>) -> Ordering {
    match k {
        Some(k) => p.cmp(k),
        None => Ordering::Less,
    }
}

impl<K: Ord + Copy, V> BTreeMap<K, V> {
    pub fn new() -> Self {
        Self { k0: None, k1: None, v0: None, v1: None }
    }

    pub fn len(&self) -> usize {
        (self.k0.is_some() as usize) + (self.k1.is_some() as usize)
    }

    // Total-order precondition over {present keys} + {probe}; returns (probe cmp k0, probe cmp k1)
    fn order(&self, p: &K) -> (Ordering, Ordering) {
        let c0 = cmp_slot(p, &self.k0);
        let c1 = cmp_slot(p, &self.k1);
        if let Some(k0) = &self.k0 {
            assert!(rev_ok(c0, k0.cmp(p)), "BTreeMap precondition: key order not antisymmetric");
            if let Some(k1) = &self.k1 {
                assert!(rev_ok(c1, k1.cmp(p)), "BTreeMap precondition: key order not antisymmetric");
                assert!(k0.cmp(k1) == Ordering::Less && k1.cmp(k0) == Ordering::Greater,
                        "BTreeMap precondition: stored keys not totally ordered");
                // k0 < k1: p <= k0 implies p < k1 (equivalently p >= k1 implies p > k0)
                assert!(!(c0 != Ordering::Greater && c1 != Ordering::Less), "BTreeMap precondition: key order not transitive");
            }
        }
        (c0, c1)
    }

    // Pure look-ups need no order precondition: a probe equal to a stored key compares like that key
    // against all others, and a probe equal to none is "not found" on every search path.
    fn lookup(&self, p: &K) -> (Ordering, Ordering) {
        (cmp_slot(p, &self.k0), cmp_slot(p, &self.k1))
    }

    pub fn iter(&self) -> Iter<'_, K, V> {
        Iter { map: self, pos: 0 }
    }

    fn insert_new(&mut self, k: K, v: V) {
        let (c0, _c1) = self.order(&k);
        if self.k0.is_none() {
            self.k0 = Some(k);
            mem::forget(mem::replace(&mut self.v0, Some(v)));
        } else {
            assert!(self.k1.is_none(), "vmap: model capacity (2 entries) exceeded: outside the harness bound");
            if c0 == Ordering::Less {
                self.k1 = self.k0;
                mem::swap(&mut self.v0, &mut self.v1); // v1 was None
                self.k0 = Some(k);
                mem::forget(mem::replace(&mut self.v0, Some(v)));
            } else {
                self.k1 = Some(k);
                mem::forget(mem::replace(&mut self.v1, Some(v)));
            }
        }
    }

    pub fn insert(&mut self, k: K, v: V) -> Option<V> {
        let (c0, c1) = self.lookup(&k);
        if self.k0.is_some() && c0 == Ordering::Equal {
            return mem::replace(&mut self.v0, Some(v));
        }
        if self.k1.is_some() && c1 == Ordering::Equal {
            return mem::replace(&mut self.v1, Some(v));
        }
        self.insert_new(k, v);
        None
    }

    pub fn remove(&mut self, k: &K) -> Option<V> {
        let (c0, c1) = self.lookup(k);
        if self.k0.is_some() && c0 == Ordering::Equal {
            let rv = self.v0.take();
            self.k0 = self.k1;
            self.k1 = None;
            mem::swap(&mut self.v0, &mut self.v1); // v0 is None now: moves slot 1 down
            return rv;
        }
        if self.k1.is_some() && c1 == Ordering::Equal {
            self.k1 = None;
            return self.v1.take();
        }
        None
    }

    pub fn entry(&mut self, k: K) -> Entry<'_, K, V> {
        let (c0, c1) = self.lookup(&k);
        if (self.k0.is_some() && c0 == Ordering::Equal) || (self.k1.is_some() && c1 == Ordering::Equal) {
            return Entry::Occupied(OccupiedEntry);
        }
        Entry::Vacant(VacantEntry { map: self, key: k })
    }

    // Keeps keys < k in self, returns keys >= k
    pub fn split_off(&mut self, k: &K) -> Self {
        let (c0, c1) = self.order(k);
        let mut rest = Self::new();
        // slot i goes to `rest` iff key_i >= k  iff  k cmp key_i != Greater
        let m0 = self.k0.is_some() && c0 != Ordering::Greater;
        let m1 = self.k1.is_some() && c1 != Ordering::Greater;
        if m0 {
            // sorted: k0 >= k implies k1 >= k -- everything moves
            rest = mem::replace(self, Self::new());
        } else if m1 {
            rest.k0 = self.k1;
            self.k1 = None;
            mem::swap(&mut rest.v0, &mut self.v1);
        }
        rest
    }
}

pub struct Iter<'a, K, V> {
    map: &'a BTreeMap<K, V>,
    pos: usize,
}
impl<'a, K, V> Iterator for Iter<'a, K, V> {
    type Item = (&'a K, &'a V);
    fn next(&mut self) -> Option<Self::Item> {
        let p = self.pos;
        self.pos += 1;
        if p == 0 {
            if let (Some(k), Some(v)) = (&self.map.k0, &self.map.v0) {
                return Some((k, v));
            }
        } else if p == 1 {
            if let (Some(k), Some(v)) = (&self.map.k1, &self.map.v1) {
                return Some((k, v));
            }
        }
        None
    }
}

pub struct IntoIter<K, V> {
    map: BTreeMap<K, V>,
    pos: usize,
}
impl<K: Copy, V> Iterator for IntoIter<K, V> {
    type Item = (K, V);
    fn next(&mut self) -> Option<Self::Item> {
        let p = self.pos;
        self.pos += 1;
        if p == 0 {
            if let (Some(k), Some(v)) = (self.map.k0, self.map.v0.take()) {
                return Some((k, v));
            }
        } else if p == 1 {
            if let (Some(k), Some(v)) = (self.map.k1, self.map.v1.take()) {
                return Some((k, v));
            }
        }
        None
    }
}
impl<K: Copy, V> IntoIterator for BTreeMap<K, V> {
    type Item = (K, V);
    type IntoIter = IntoIter<K, V>;
    fn into_iter(self) -> IntoIter<K, V> {
        IntoIter { map: self, pos: 0 }
    }
}
