// Model of the part of std::collections::BTreeMap that src/timers/mod.rs uses.
// Sorted array of fixed capacity.  It behaves like BTreeMap *provided* the key
// order is a total order over the keys that meet; that precondition (which
// std's map silently relies on, and which the cyclic WrapTime order only has
// while all keys lie within 2^31 ticks) is asserted on every operation.
//
// Compiled only under cfg(all(kani, not(test), feature = "uazu-stakker-verif")):
// `cargo kani playback` (cfg(test)) and every ordinary build use std's map.

use std::cmp::Ordering;

pub const CAP: usize = 3;

pub struct BTreeMap<K, V> {
    ent: [Option<(K, V)>; CAP], // ent[0..n] are Some and strictly ascending; the rest None
}

pub enum Entry<'a, K, V> {
    Vacant(VacantEntry<'a, K, V>),
    #[allow(dead_code)]
    Occupied(OccupiedEntry),
}
pub struct OccupiedEntry;
pub struct VacantEntry<'a, K, V> {
    map: &'a mut BTreeMap<K, V>,
    key: K,
}

impl<'a, K: Ord + Copy, V> VacantEntry<'a, K, V> {
    pub fn insert(self, v: V) {
        let old = self.map.insert(self.key, v);
        debug_assert!(old.is_none());
        std::mem::forget(old);
    }
}

impl<K: Ord + Copy, V> BTreeMap<K, V> {
    pub fn new() -> Self {
        Self { ent: [None, None, None] }
    }

    pub fn len(&self) -> usize {
        let mut n = 0;
        let mut i = 0;
        while i < CAP {
            if self.ent[i].is_some() {
                n += 1;
            }
            i += 1;
        }
        n
    }

    // Total-order precondition over {present keys} ∪ {probe}
    fn check_order(&self, probe: &K) {
        let mut i = 0;
        while i < CAP {
            if let Some((ki, _)) = &self.ent[i] {
                let c = ki.cmp(probe);
                assert!(c == probe.cmp(ki).reverse(), "BTreeMap precondition: key order not antisymmetric");
                let mut j = i + 1;
                while j < CAP {
                    if let Some((kj, _)) = &self.ent[j] {
                        assert!(ki.cmp(kj) == Ordering::Less && kj.cmp(ki) == Ordering::Greater,
                                "BTreeMap precondition: stored keys not totally ordered");
                        // probe must sit consistently: ki < kj, so probe > kj => probe > ki, probe < ki => probe < kj
                        let cj = kj.cmp(probe);
                        assert!(!(c == Ordering::Greater && cj == Ordering::Less) && !(c == Ordering::Equal && cj != Ordering::Greater)
                                && !(cj == Ordering::Equal && c != Ordering::Less),
                                "BTreeMap precondition: key order not transitive");
                    }
                    j += 1;
                }
            }
            i += 1;
        }
    }

    pub fn iter(&self) -> Iter<'_, K, V> {
        Iter { map: self, pos: 0 }
    }

    pub fn insert(&mut self, k: K, v: V) -> Option<V> {
        self.check_order(&k);
        // position: first slot that is empty or holds a key >= k
        let mut pos = 0;
        while pos < CAP {
            match &self.ent[pos] {
                None => break,
                Some((kp, _)) => {
                    if kp.cmp(&k) != Ordering::Less {
                        break;
                    }
                }
            }
            pos += 1;
        }
        assert!(pos < CAP, "vmap: model capacity exceeded (harness bound)");
        if let Some((kp, _)) = &self.ent[pos] {
            if kp.cmp(&k) == Ordering::Equal {
                return self.ent[pos].replace((k, v)).map(|e| e.1);
            }
        }
        assert!(self.ent[CAP - 1].is_none(), "vmap: model capacity exceeded (harness bound)");
        let mut i = CAP - 1;
        while i > pos {
            self.ent[i] = self.ent[i - 1].take();
            i -= 1;
        }
        self.ent[pos] = Some((k, v));
        None
    }

    pub fn remove(&mut self, k: &K) -> Option<V> {
        self.check_order(k);
        let mut pos = 0;
        while pos < CAP {
            match &self.ent[pos] {
                None => return None,
                Some((kp, _)) => {
                    if kp.cmp(k) == Ordering::Equal {
                        break;
                    }
                }
            }
            pos += 1;
        }
        if pos >= CAP {
            return None;
        }
        let rv = self.ent[pos].take().map(|e| e.1);
        let mut i = pos;
        while i + 1 < CAP {
            self.ent[i] = self.ent[i + 1].take();
            i += 1;
        }
        rv
    }

    pub fn entry(&mut self, k: K) -> Entry<'_, K, V> {
        self.check_order(&k);
        let mut i = 0;
        while i < CAP {
            if let Some((kp, _)) = &self.ent[i] {
                if kp.cmp(&k) == Ordering::Equal {
                    return Entry::Occupied(OccupiedEntry);
                }
            }
            i += 1;
        }
        Entry::Vacant(VacantEntry { map: self, key: k })
    }

    // Keeps keys < k in self, returns keys >= k
    pub fn split_off(&mut self, k: &K) -> Self {
        self.check_order(k);
        let mut rest = Self::new();
        let mut n = 0;
        let mut i = 0;
        while i < CAP {
            let ge = match &self.ent[i] {
                None => false,
                Some((kp, _)) => kp.cmp(k) != Ordering::Less,
            };
            if ge {
                rest.ent[n] = self.ent[i].take();
                n += 1;
            }
            i += 1;
        }
        rest
    }
}

pub struct Iter<'a, K, V> {
    map: &'a BTreeMap<K, V>,
    pos: usize,
}
impl<'a, K, V> Iterator for Iter<'a, K, V> {
    type Item = (&'a K, &'a V);
    fn next(&mut self) -> Option<Self::Item> {
        if self.pos < CAP {
            if let Some((k, v)) = &self.map.ent[self.pos] {
                self.pos += 1;
                return Some((k, v));
            }
        }
        None
    }
}

pub struct IntoIter<K, V> {
    map: BTreeMap<K, V>,
    pos: usize,
}
impl<K, V> Iterator for IntoIter<K, V> {
    type Item = (K, V);
    fn next(&mut self) -> Option<Self::Item> {
        if self.pos < CAP {
            if let Some(e) = self.map.ent[self.pos].take() {
                self.pos += 1;
                return Some(e);
            }
        }
        None
    }
}
impl<K, V> IntoIterator for BTreeMap<K, V> {
    type Item = (K, V);
    type IntoIter = IntoIter<K, V>;
    fn into_iter(self) -> IntoIter<K, V> {
        IntoIter { map: self, pos: 0 }
    }
}
