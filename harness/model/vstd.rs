// `std` facade for src/sync/waker.rs (and channel.rs) under Kani: identical to std except for
// sync::atomic::AtomicUsize, which is a shim that records every operation (address of the word, operation,
// argument, memory ordering, value returned) and can return either the real old value (sequential harnesses) or
// values chosen by the harness (extraction harnesses: every possible outcome of a concurrent execution of that
// single operation).  waker.rs sees it through `use crate::uazu_stakker_verif::vstd as std;` (hook).
pub use ::std::{convert, marker, mem, ops};

pub mod sync {
    pub use ::std::sync::{Arc, Mutex, MutexGuard};
    pub mod atomic {
        pub use ::std::sync::atomic::Ordering;
        use ::std::cell::UnsafeCell;

        pub const OP_OR: u8 = 1;
        pub const OP_SWAP: u8 = 2;
        pub const OP_LOAD: u8 = 3;
        pub const OP_STORE: u8 = 4;
        pub const OP_AND: u8 = 5;
        pub const OP_OTHER: u8 = 6;
        pub const OP_CALLBACK: u8 = 9; // poll-waker callback (logged by the harness's callback)

        #[derive(Copy, Clone, PartialEq, Eq)]
        pub struct Event {
            pub addr: usize,
            pub op: u8,
            pub arg: usize,
            pub ord: u8, // 0 Relaxed 1 Release 2 Acquire 3 AcqRel 4 SeqCst
            pub ret: usize,
        }
        pub const EVMAX: usize = 24;
        pub struct Trace {
            pub n: usize,
            pub ev: [Event; EVMAX],
            pub scripted: bool,       // return scripted values instead of the memory contents
            pub script: [usize; EVMAX], // value returned by the k-th atomic operation when scripted
            pub k: usize,
        }
        pub static mut TRACE: Trace = Trace {
            n: 0,
            ev: [Event { addr: 0, op: 0, arg: 0, ord: 0, ret: 0 }; EVMAX],
            scripted: false,
            script: [0; EVMAX],
            k: 0,
        };
        #[allow(static_mut_refs)]
        pub fn trace() -> &'static mut Trace {
            unsafe { &mut TRACE }
        }
        pub fn ord_code(o: Ordering) -> u8 {
            match o {
                Ordering::Relaxed => 0,
                Ordering::Release => 1,
                Ordering::Acquire => 2,
                Ordering::AcqRel => 3,
                _ => 4,
            }
        }
        pub fn log_event(addr: usize, op: u8, arg: usize, ord: u8, ret: usize) {
            let t = trace();
            if t.n < EVMAX {
                t.ev[t.n] = Event { addr, op, arg, ord, ret };
            }
            t.n += 1;
        }

        pub struct AtomicUsize {
            v: UnsafeCell<usize>,
        }
        unsafe impl Sync for AtomicUsize {}
        unsafe impl Send for AtomicUsize {}
        impl Default for AtomicUsize {
            fn default() -> Self {
                Self::new(0)
            }
        }
        impl AtomicUsize {
            pub const fn new(v: usize) -> Self {
                Self { v: UnsafeCell::new(v) }
            }
            fn addr(&self) -> usize {
                self as *const Self as usize
            }
            fn rmw(&self, op: u8, arg: usize, ord: Ordering, f: impl FnOnce(usize) -> usize) -> usize {
                let t = trace();
                let cur = unsafe { *self.v.get() };
                let old = if t.scripted {
                    let k = t.k;
                    t.k += 1;
                    if k < EVMAX { t.script[k] } else { 0 }
                } else {
                    cur
                };
                unsafe { *self.v.get() = f(old) };
                log_event(self.addr(), op, arg, ord_code(ord), old);
                old
            }
            pub fn fetch_or(&self, val: usize, ord: Ordering) -> usize {
                self.rmw(OP_OR, val, ord, |o| o | val)
            }
            pub fn fetch_and(&self, val: usize, ord: Ordering) -> usize {
                self.rmw(OP_AND, val, ord, |o| o & val)
            }
            pub fn swap(&self, val: usize, ord: Ordering) -> usize {
                self.rmw(OP_SWAP, val, ord, |_| val)
            }
            pub fn load(&self, ord: Ordering) -> usize {
                self.rmw(OP_LOAD, 0, ord, |o| o)
            }
            pub fn store(&self, val: usize, ord: Ordering) {
                self.rmw(OP_STORE, val, ord, |_| val);
            }
            pub fn fetch_add(&self, val: usize, ord: Ordering) -> usize {
                self.rmw(OP_OTHER, val, ord, |o| o.wrapping_add(val))
            }
            pub fn fetch_xor(&self, val: usize, ord: Ordering) -> usize {
                self.rmw(OP_OTHER, val, ord, |o| o ^ val)
            }
            pub fn compare_exchange(&self, cur: usize, new: usize, ord: Ordering, _f: Ordering) -> Result<usize, usize> {
                let old = self.rmw(OP_OTHER, new, ord, |o| if o == cur { new } else { o });
                if old == cur { Ok(old) } else { Err(old) }
            }
            pub fn get_mut(&mut self) -> &mut usize {
                self.v.get_mut()
            }
            pub fn into_inner(self) -> usize {
                self.v.into_inner()
            }
            // harness access (not part of std's API)
            pub fn peek(&self) -> usize {
                unsafe { *self.v.get() }
            }
            pub fn poke(&self, v: usize) {
                unsafe { *self.v.get() = v }
            }
        }
    }
}
