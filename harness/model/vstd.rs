// `std` facade for src/sync/waker.rs (and channel.rs) under Kani: identical to std except for
// sync::atomic::AtomicUsize, which is a shim that records every operation (address of the word, operation,
// argument, memory ordering, value returned) and can return either the real old value (sequential harnesses) or
// values chosen by the harness (extraction harnesses: every possible outcome of a concurrent execution of that
// single operation).  waker.rs sees it through `use crate::uazu_stakker_verif::vstd as std;` (hook).
pub use ::std::{convert, marker, mem, ops};

pub mod sync {
    pub use ::std::sync::Arc;
    #[cfg(feature = "no-unsafe")]
    pub use ::std::sync::{Mutex, MutexGuard};

    // Sequential stand-in for std::sync::Mutex: in a sequential execution a lock is always free; taking it while it
    // is held is a self-deadlock and is reported.  (std's futex mutex makes CBMC explore the contended spin path.)
    #[cfg(not(feature = "no-unsafe"))]
    pub struct Mutex<T> {
        held: ::std::cell::Cell<bool>,
        held_by_other: ::std::cell::Cell<bool>,
        v: ::std::cell::UnsafeCell<T>,
    }
    #[cfg(not(feature = "no-unsafe"))]
    unsafe impl<T: Send> Sync for Mutex<T> {}
    #[cfg(not(feature = "no-unsafe"))]
    unsafe impl<T: Send> Send for Mutex<T> {}
    #[cfg(not(feature = "no-unsafe"))]
    #[derive(Debug)]
    pub struct Poisoned;
    #[cfg(not(feature = "no-unsafe"))]
    pub struct MutexGuard<'a, T> {
        m: &'a Mutex<T>,
    }
    #[cfg(not(feature = "no-unsafe"))]
    impl<T> Mutex<T> {
        pub const fn new(v: T) -> Self {
            Self { held: ::std::cell::Cell::new(false), held_by_other: ::std::cell::Cell::new(false), v: ::std::cell::UnsafeCell::new(v) }
        }
        pub fn lock(&self) -> Result<MutexGuard<'_, T>, Poisoned> {
            if self.held.get() && self.held_by_other.get() {
                // another thread holds the lock (harness-simulated): lock() blocks -- this path ends here
                kani::assume(false);
            }
            assert!(!self.held.get(), "mutex locked twice by the same (only) thread: self-deadlock");
            self.held.set(true);
            Ok(MutexGuard { m: self })
        }
        /// harness: pretend that another thread holds (or releases) the lock
        pub fn set_held_by_other(&self, held: bool) {
            self.held.set(held);
            self.held_by_other.set(held);
        }
        pub fn try_lock(&self) -> Result<MutexGuard<'_, T>, Poisoned> {
            if self.held.get() {
                Err(Poisoned)
            } else {
                self.held.set(true);
                Ok(MutexGuard { m: self })
            }
        }
    }
    #[cfg(not(feature = "no-unsafe"))]
    impl<'a, T> ::std::ops::Deref for MutexGuard<'a, T> {
        type Target = T;
        fn deref(&self) -> &T {
            unsafe { &*self.m.v.get() }
        }
    }
    #[cfg(not(feature = "no-unsafe"))]
    impl<'a, T> ::std::ops::DerefMut for MutexGuard<'a, T> {
        fn deref_mut(&mut self) -> &mut T {
            unsafe { &mut *self.m.v.get() }
        }
    }
    #[cfg(not(feature = "no-unsafe"))]
    impl<'a, T> Drop for MutexGuard<'a, T> {
        fn drop(&mut self) {
            self.m.held.set(false);
        }
    }
    pub mod atomic {
        pub use ::std::sync::atomic::Ordering;

        pub const OP_OR: u8 = 1;
        pub const OP_SWAP: u8 = 2;
        pub const OP_LOAD: u8 = 3;
        pub const OP_STORE: u8 = 4;
        pub const OP_AND: u8 = 5;
        pub const OP_OTHER: u8 = 6;
        pub const OP_CALLBACK: u8 = 9; // poll-waker callback (logged by the harness's callback)

        #[derive(Copy, Clone, PartialEq, Eq)]
        pub struct Event {
            pub addr: usize,
            pub op: u8,
            pub arg: usize,
            pub ord: u8, // 0 Relaxed 1 Release 2 Acquire 3 AcqRel 4 SeqCst
            pub ret: usize,
        }
        pub const EVMAX: usize = 24;
        pub struct Trace {
            pub n: usize,
            pub ev: [Event; EVMAX],
            pub scripted: bool,       // return scripted values instead of the memory contents
            pub script: [usize; EVMAX], // value returned by the k-th atomic operation when scripted
            pub k: usize,
        }
        #[cfg(not(feature = "no-unsafe"))]
        pub static mut TRACE: Trace = Trace {
            n: 0,
            ev: [Event { addr: 0, op: 0, arg: 0, ord: 0, ret: 0 }; EVMAX],
            scripted: false,
            script: [0; EVMAX],
            k: 0,
        };
        #[cfg(not(feature = "no-unsafe"))]
        #[allow(static_mut_refs)]
        pub fn trace() -> &'static mut Trace {
            unsafe { &mut TRACE }
        }
        pub fn ord_code(o: Ordering) -> u8 {
            match o {
                Ordering::Relaxed => 0,
                Ordering::Release => 1,
                Ordering::Acquire => 2,
                Ordering::AcqRel => 3,
                _ => 4,
            }
        }
        #[cfg(not(feature = "no-unsafe"))]
        pub fn log_event(addr: usize, op: u8, arg: usize, ord: u8, ret: usize) {
            let t = trace();
            if t.n < EVMAX {
                t.ev[t.n] = Event { addr, op, arg, ord, ret };
            }
            t.n += 1;
        }

        pub struct AtomicUsize {
            v: ::std::sync::atomic::AtomicUsize,
        }
        impl Default for AtomicUsize {
            fn default() -> Self {
                Self::new(0)
            }
        }
        impl AtomicUsize {
            pub const fn new(v: usize) -> Self {
                Self { v: ::std::sync::atomic::AtomicUsize::new(v) }
            }
            fn addr(&self) -> usize {
                self as *const Self as usize
            }
            // Extraction builds (cfg uazu_vstd_scripted, set by the driver for the waker extraction harnesses only):
            // every operation is logged and returns the next scripted value.  All other builds: the real operation,
            // nothing logged, no global state read (reading a mode flag from a static would make every returned
            // value symbolic for CBMC).
            #[cfg(uazu_vstd_scripted)]
            fn rmw(&self, op: u8, arg: usize, ord: Ordering, f: impl FnOnce(usize) -> usize) -> usize {
                let t = trace();
                let k = t.k;
                t.k += 1;
                let old = if k < EVMAX { t.script[k] } else { 0 };
                self.v.store(f(old), Ordering::SeqCst);
                log_event(self.addr(), op, arg, ord_code(ord), old);
                old
            }
            #[cfg(not(uazu_vstd_scripted))]
            fn rmw(&self, _op: u8, _arg: usize, _ord: Ordering, f: impl FnOnce(usize) -> usize) -> usize {
                let old = self.v.load(Ordering::SeqCst);
                self.v.store(f(old), Ordering::SeqCst);
                old
            }
            pub fn fetch_or(&self, val: usize, ord: Ordering) -> usize {
                self.rmw(OP_OR, val, ord, |o| o | val)
            }
            pub fn fetch_and(&self, val: usize, ord: Ordering) -> usize {
                self.rmw(OP_AND, val, ord, |o| o & val)
            }
            pub fn swap(&self, val: usize, ord: Ordering) -> usize {
                self.rmw(OP_SWAP, val, ord, |_| val)
            }
            pub fn load(&self, ord: Ordering) -> usize {
                self.rmw(OP_LOAD, 0, ord, |o| o)
            }
            pub fn store(&self, val: usize, ord: Ordering) {
                self.rmw(OP_STORE, val, ord, |_| val);
            }
            pub fn fetch_add(&self, val: usize, ord: Ordering) -> usize {
                self.rmw(OP_OTHER, val, ord, |o| o.wrapping_add(val))
            }
            pub fn fetch_xor(&self, val: usize, ord: Ordering) -> usize {
                self.rmw(OP_OTHER, val, ord, |o| o ^ val)
            }
            pub fn compare_exchange(&self, cur: usize, new: usize, ord: Ordering, _f: Ordering) -> Result<usize, usize> {
                let old = self.rmw(OP_OTHER, new, ord, |o| if o == cur { new } else { o });
                if old == cur { Ok(old) } else { Err(old) }
            }
            pub fn get_mut(&mut self) -> &mut usize {
                self.v.get_mut()
            }
            pub fn into_inner(self) -> usize {
                self.v.into_inner()
            }
        }
    }
}
