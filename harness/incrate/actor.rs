// harness module for actor (see DESIGN.md)
