// Harnesses for the actor lifecycle at unit level (child module of src/actor.rs: sees Actor{rc}, Actor::terminate,
// Actor::to_ready, Cx::new, Prep).  Properties: C02 (gating units), C03, C04 (owner units), C05 (Ret units), C20(c).
// Whole `actor!`/`call!` programs are out of reach (DESIGN P10): no closure type here captures an Actor; actor
// references needed inside closures are fetched from a static.
//
// @file crate=incrate features=multi-stakker,no-unsafe-queue restrict_vtable=1 replay_cfg=uazu_replay_actor
use super::*;
use crate::uazu_stakker_verif::support::*;
use crate::rc::ActorRc;

// ---- observation ----
pub(crate) struct Obs {
    notified: u8,    // how often the StopCause notifier ran
    cause: u8,       // 0 = None (Ret dropped), 1 Stopped, 2 Failed, 3 Killed, 4 Dropped, 5 Lost
    err: u8,         // payload id of the error
    val_drops: u8,   // how often the actor's own value was dropped
    val_dropped_before_notify: bool,
    held_run: [u8; 4],
    held_n: usize,
    held_drops: [u8; 4],
    in_method: bool,
    val_dropped_in_method: bool,
}
static mut OBS: Obs = Obs {
    notified: 0, cause: 0, err: 0, val_drops: 0, val_dropped_before_notify: false,
    held_run: [0; 4], held_n: 0, held_drops: [0; 4], in_method: false, val_dropped_in_method: false,
};
fn obs() -> &'static mut Obs {
    #[allow(static_mut_refs)]
    unsafe { &mut OBS }
}
fn obs_reset() {
    *obs() = Obs {
        notified: 0, cause: 0, err: 0, val_drops: 0, val_dropped_before_notify: false,
        held_run: [0; 4], held_n: 0, held_drops: [0; 4], in_method: false, val_dropped_in_method: false,
    };
}

// the actor's own state
pub(crate) struct Val(u8);
impl Drop for Val {
    fn drop(&mut self) {
        let o = obs();
        o.val_drops += 1;
        if o.notified == 0 {
            o.val_dropped_before_notify = true;
        }
        if o.in_method {
            o.val_dropped_in_method = true;
        }
    }
}

// error payload
#[derive(Debug)]
struct E(u8);
impl fmt::Display for E {
    fn fmt(&self, _f: &mut fmt::Formatter<'_>) -> fmt::Result {
        Ok(())
    }
}
impl Error for E {}

fn tag(c: &StopCause) -> (u8, u8) {
    match c {
        StopCause::Stopped => (1, 0),
        StopCause::Failed(e) => (2, e.downcast_ref::<E>().map(|e| e.0).unwrap_or(255)),
        StopCause::Killed(e) => (3, e.downcast_ref::<E>().map(|e| e.0).unwrap_or(255)),
        StopCause::Dropped => (4, 0),
        StopCause::Lost => (5, 0),
    }
}

fn notifier() -> Ret<StopCause> {
    Ret::new(|c: Option<StopCause>| {
        let o = obs();
        o.notified += 1;
        match c {
            None => o.cause = 0,
            Some(c) => {
                let (t, e) = tag(&c);
                o.cause = t;
                o.err = e;
            }
        }
    })
}

// a symbolic termination request: (tag, payload)
fn any_cause() -> (StopCause, u8, u8) {
    let k: u8 = kani::any();
    let p: u8 = kani::any();
    kani::assume(k >= 1 && k <= 4 && p < 200);
    let c = match k {
        1 => StopCause::Stopped,
        2 => StopCause::Failed(Box::new(E(p))),
        3 => StopCause::Killed(Box::new(E(p))),
        _ => StopCause::Dropped,
    };
    (c, k, if k == 2 || k == 3 { p } else { 0 })
}

// token carried by held closures
struct HTok(u8);
impl Drop for HTok {
    fn drop(&mut self) {
        obs().held_drops[self.0 as usize] += 1;
    }
}
fn held(id: u8) -> impl FnOnce(&mut Stakker) + 'static {
    let t = HTok(id);
    move |_s: &mut Stakker| {
        let o = obs();
        if o.held_n < 4 {
            o.held_run[o.held_n] = id;
        }
        o.held_n += 1;
        drop(t);
    }
}

fn new_world() -> (Stakker, Actor<Val>) {
    obs_reset();
    let mut s = Stakker::new(base_instant());
    let a = Actor { rc: ActorRc::new(&mut s, Some(notifier()), 0) };
    (s, a)
}

fn state_of(a: &Actor<Val>) -> u8 {
    // 0 prep, 1 ready, 2 zombie
    if a.rc.is_prep() { 0 } else if a.is_zombie() { 2 } else { 1 }
}

// ---- C03: Prep -> Zombie with calls held; repeated termination requests ----
fn prep_terminate_twice() {
    let (mut s, a) = new_world();
    assert!(state_of(&a) == 0);
    // two calls held for the Prep actor
    a.rc.borrow_prep(&mut s.actor_owner).unwrap().queue.push(held(1));
    a.rc.borrow_prep(&mut s.actor_owner).unwrap().queue.push(held(2));
    let (c1, k1, p1) = any_cause();
    let (c2, _k2, _p2) = any_cause();
    a.terminate(&mut s, c1);
    assert!(state_of(&a) == 2, "C03: not a Zombie after termination");
    let o = obs();
    assert!(o.notified == 1 && o.cause == k1 && o.err == p1, "C03: notifier must run once with the first cause, payload intact");
    assert!(o.held_n == 0 && o.held_drops[1] == 1 && o.held_drops[2] == 1, "C02/C03: held calls must be dropped exactly once, never run");
    a.terminate(&mut s, c2);
    assert!(state_of(&a) == 2 && o.notified == 1 && o.cause == k1 && o.err == p1, "C03: a second termination must change nothing");
    // becoming Ready afterwards is ignored: the value is dropped, the actor stays a Zombie
    a.to_ready(&mut s, Val(7));
    assert!(state_of(&a) == 2 && o.val_drops == 1 && o.notified == 1, "C03: a Zombie left the Zombie state");
    assert!(a.rc.borrow_ready(&mut s.actor_owner).is_none() && a.rc.borrow_prep(&mut s.actor_owner).is_none());
    kani::cover!(k1 == 2 && p1 == 42, "failed with payload");
    kani::cover!(k1 == 4, "dropped");
    std::mem::forget(a);
    std::mem::forget(s);
}

// ---- C02/C03: Prep -> Ready flushes held calls in order before returning; then termination drops the value once ----
fn ready_then_terminate() {
    let (mut s, a) = new_world();
    a.rc.borrow_prep(&mut s.actor_owner).unwrap().queue.push(held(1));
    a.rc.borrow_prep(&mut s.actor_owner).unwrap().queue.push(held(2));
    a.rc.borrow_prep(&mut s.actor_owner).unwrap().queue.push(held(3));
    a.to_ready(&mut s, Val(9));
    let o = obs();
    assert!(state_of(&a) == 1, "C03: not Ready after to_ready");
    assert!(o.held_n == 3 && o.held_run[0] == 1 && o.held_run[1] == 2 && o.held_run[2] == 3, "C02: held calls must run in order as soon as the actor is Ready");
    assert!(o.held_drops[1] == 1 && o.held_drops[2] == 1 && o.held_drops[3] == 1);
    assert!(o.val_drops == 0 && o.notified == 0);
    assert!(a.rc.borrow_ready(&mut s.actor_owner).map(|v| v.0) == Some(9));
    let (c1, k1, p1) = any_cause();
    let (c2, _, _) = any_cause();
    a.terminate(&mut s, c1);
    assert!(state_of(&a) == 2 && o.val_drops == 1 && o.val_dropped_before_notify, "C03: value must be dropped once, no later than the notification");
    assert!(o.notified == 1 && o.cause == k1 && o.err == p1, "C03: notifier must run once with the first cause");
    a.terminate(&mut s, c2);
    assert!(o.val_drops == 1 && o.notified == 1 && o.cause == k1 && state_of(&a) == 2, "C03: second termination must change nothing");
    kani::cover!(k1 == 3, "killed");
    std::mem::forget(a);
    std::mem::forget(s);
}

// ---- C03: a call held in Prep terminates the actor while the queue is flushed by to_ready ----
static mut ACTOR: Option<Actor<Val>> = None;
fn actor_ref() -> &'static Actor<Val> {
    #[allow(static_mut_refs)]
    unsafe { ACTOR.as_ref().unwrap() }
}
fn stop_during_flush() {
    let (mut s, a) = new_world();
    unsafe { ACTOR = Some(a.clone()) };
    a.rc.borrow_prep(&mut s.actor_owner).unwrap().queue.push(held(1));
    // the held call stops the actor (what `stop!` does after the method returns)
    a.rc.borrow_prep(&mut s.actor_owner).unwrap().queue.push(|s: &mut Stakker| actor_ref().terminate(s, StopCause::Stopped));
    a.rc.borrow_prep(&mut s.actor_owner).unwrap().queue.push(held(2));
    a.to_ready(&mut s, Val(3));
    let o = obs();
    assert!(o.notified == 1 && o.cause == 1 && o.val_drops == 1, "C03: stop from a held call must terminate once");
    assert!(state_of(&a) == 2, "C03: is_zombie() must be true from the termination on");
    assert!(a.rc.borrow_ready(&mut s.actor_owner).is_none(), "C03: a terminated actor has no value");
    kani::cover!(o.held_n == 2, "both plain held calls ran");
    std::mem::forget(a);
    std::mem::forget(s);
}

// ---- C02: apply_prep gating in each state, first-cause rule of Cx, fate of held calls when init ends ----
// (Actor::apply itself is not driven: in Prep it builds a closure that captures an Actor, whose drop glue is
//  type-recursive -- DESIGN P10.  Held calls are placed on the Prep queue directly, as apply does.)
fn gating() {
    let (mut s, a) = new_world();
    a.rc.borrow_prep(&mut s.actor_owner).unwrap().queue.push(held(1));
    let mk: bool = kani::any();
    let die: bool = kani::any();
    a.apply_prep(&mut s, move |cx| {
        if die {
            cx.fail(E(5));
            cx.stop(); // first cause wins
        }
        if mk { Some(Val(4)) } else { None }
    });
    let o = obs();
    if die {
        assert!(state_of(&a) == 2 && o.notified == 1 && o.cause == 2 && o.err == 5, "C03: fail in a Prep call terminates with the first cause");
        assert!(o.held_n == 0 && o.held_drops[1] == 1, "C02: held calls must be discarded (dropped once, never run) when the actor terminates in Prep");
        assert!(o.val_drops == if mk { 1 } else { 0 });
    } else if mk {
        assert!(state_of(&a) == 1 && o.held_n == 1 && o.held_run[0] == 1, "C02: held call must run once the actor is Ready");
        // Ready: a Prep-style call does nothing
        a.apply_prep(&mut s, |_cx| {
            obs().held_n += 10;
            None
        });
        assert!(o.held_n == 1 && state_of(&a) == 1, "C02: a Prep-style call ran outside Prep");
        a.terminate(&mut s, StopCause::Stopped);
        // Zombie: nothing runs
        a.apply_prep(&mut s, |_cx| {
            obs().held_n += 100;
            None
        });
        assert!(o.held_n == 1 && o.notified == 1 && o.val_drops == 1, "C02: a call ran on a Zombie");
    } else {
        assert!(state_of(&a) == 0 && o.held_n == 0 && o.notified == 0 && o.held_drops[1] == 0, "C02: held call lost although the actor is still in Prep");
        // a second Prep call still runs
        a.apply_prep(&mut s, |_cx| {
            obs().held_n += 10;
            None
        });
        assert!(o.held_n == 10, "C02: Prep-style call did not run in Prep");
    }
    kani::cover!(die && mk, "init fails but returns a value");
    kani::cover!(!die && mk, "init succeeds");
    kani::cover!(!die && !mk, "init not finished");
    std::mem::forget(a);
    std::mem::forget(s);
}

macro_rules! actor_harness {
    ($name:ident, $body:ident) => {
        #[kani::proof]
        #[kani::unwind(10)]
        #[kani::stub(std::hash::RandomState::new, crate::uazu_stakker_verif::support::fixed_random_state)]
        fn $name() {
            $body();
        }
    };
}

// @verif prop=C03,C02,C05 tier=quick timeout=1200 mem=24 unwind=10 unwindset=drop_glue::<\[.*Stakker\)>\]>\.0$:4
// @enc Actor::terminate Actor::to_ready ActorRc::{new,to_zombie,to_ready,is_prep,is_zombie,borrow_prep,borrow_ready} CountAndState::set_state Ret::{new,ret,drop}
// @sym two termination requests: cause in {Stopped, Failed(e), Killed(e), Dropped} x payload
// @bound Prep actor with 2 held calls: terminate, terminate, to_ready
// @stub std::hash::RandomState::new -> fixed keys
// @assume multi-stakker,no-unsafe-queue build (packed ActorRc, QCell owner, inline deferrer)
actor_harness!(act_prep_terminate_twice, prep_terminate_twice);
// @verif prop=C03,C02,C04 tier=quick timeout=1200 mem=24 unwind=10 unwindset=drop_glue::<\[.*Stakker\)>\]>\.0$:4
// @enc as act_prep_terminate_twice, plus Prep queue flush (FnOnceQueue::execute inside to_ready)
// @sym two termination requests (cause x payload)
// @bound Prep actor with 3 held calls: to_ready, terminate, terminate
// @stub std::hash::RandomState::new -> fixed keys
// @assume multi-stakker,no-unsafe-queue build
actor_harness!(act_ready_then_terminate, ready_then_terminate);
// @verif prop=C03,C18 tier=quick timeout=1200 mem=24 unwind=10 unwindset=drop_glue::<\[.*Stakker\)>\]>\.0$:4
// @enc ActorRc::to_ready (state word vs queue flush order) Actor::terminate
// @sym none (fixed script)
// @bound Prep actor with 3 held calls, the second of which stops the actor while to_ready flushes the queue
// @stub std::hash::RandomState::new -> fixed keys
// @assume multi-stakker,no-unsafe-queue build
actor_harness!(act_stop_during_flush, stop_during_flush);
// @verif prop=C02,C03 tier=quick timeout=1200 mem=24 unwind=10 unwindset=drop_glue::<\[.*Stakker\)>\]>\.0$:4
// @enc Actor::{apply_prep,terminate,to_ready} Cx::{new,stop,fail} ActorRc::*
// @sym init outcome: {returns a value or not} x {fails or not}
// @bound one held call; one Prep call; then Prep-style calls in Ready / Zombie / Prep
// @stub std::hash::RandomState::new -> fixed keys
// @assume multi-stakker,no-unsafe-queue build
actor_harness!(act_gating, gating);

// ---- C20(c): with a logger installed, one Open at creation and one Close at termination, marker == cause ----
static mut LREC_N: u8 = 0;
static mut LREC: [(u64, u8, u8, u64); 4] = [(0, 0, 0, 0); 4]; // (id, level, marker, parent); marker: 0 none 1 failed 2 killed 3 dropped 4 lost 9 other
struct LVis {
    marker: u8,
    parent: u64,
}
impl crate::LogVisitor for LVis {
    fn kv_u64(&mut self, key: Option<&str>, val: u64) {
        if key == Some("parent") {
            self.parent = val;
        }
    }
    fn kv_i64(&mut self, _key: Option<&str>, _val: i64) {}
    fn kv_f64(&mut self, _key: Option<&str>, _val: f64) {}
    fn kv_bool(&mut self, _key: Option<&str>, _val: bool) {}
    fn kv_null(&mut self, key: Option<&str>) {
        self.marker = match key {
            Some("failed") => 1,
            Some("killed") => 2,
            Some("dropped") => 3,
            Some("lost") => 4,
            _ => 9,
        };
    }
    fn kv_str(&mut self, _key: Option<&str>, _val: &str) {}
    fn kv_fmt(&mut self, _key: Option<&str>, _val: &fmt::Arguments<'_>) {}
    fn kv_map(&mut self, _key: Option<&str>) {}
    fn kv_mapend(&mut self, _key: Option<&str>) {}
    fn kv_arr(&mut self, _key: Option<&str>) {}
    fn kv_arrend(&mut self, _key: Option<&str>) {}
}
fn lrecorder(_core: &mut Core, r: &crate::LogRecord<'_>) {
    unsafe {
        let i = LREC_N as usize;
        if i < 4 {
            let mut v = LVis { marker: 0, parent: 0 };
            (r.kvscan)(&mut v);
            LREC[i] = (r.id, r.level as u8, v.marker, v.parent);
        }
        LREC_N += 1;
    }
}
fn log_open_close() {
    obs_reset();
    unsafe {
        LREC_N = 0;
        LREC = [(0, 0, 0, 0); 4];
    }
    let mut s = Stakker::new(base_instant());
    s.set_logger(crate::LogFilter::all(&[crate::LogLevel::Open]), |c: &mut Core, r: &crate::LogRecord<'_>| lrecorder(c, r));
    // some unrelated span first, so that ids are not trivially 1
    let other = s.log_span_open("x", 0, |_| {});
    let parent: u64 = kani::any();
    let a: Actor<Val> = Actor { rc: ActorRc::new(&mut s, Some(notifier()), parent) };
    let id = a.id();
    unsafe {
        assert!(LREC_N == 2, "C20: creating an actor must emit exactly one Open record");
        assert!(LREC[1].0 == id && LREC[1].1 == crate::LogLevel::Open as u8, "C20: Open record must carry the actor's id");
        assert!(id != 0 && id != other, "C20: actor LogID must be fresh and non-zero");
        assert!(LREC[1].3 == parent, "C20: Open record must carry the creator's id as parent");
    }
    if kani::any() {
        a.to_ready(&mut s, Val(1));
    }
    let (c1, k1, _p1) = any_cause();
    let (c2, _k2, _p2) = any_cause();
    a.terminate(&mut s, c1);
    a.terminate(&mut s, c2);
    unsafe {
        assert!(LREC_N == 3, "C20: termination must emit exactly one Close record");
        assert!(LREC[2].0 == id && LREC[2].1 == crate::LogLevel::Close as u8, "C20: Close record must carry the actor's id");
        let want = match k1 { 1 => 0, 2 => 1, 3 => 2, _ => 3 };
        assert!(LREC[2].2 == want, "C20: Close marker must match the StopCause delivered to the notifier");
    }
    assert!(obs().notified == 1 && obs().cause == k1, "C03: notifier once with the first cause");
    kani::cover!(k1 == 4, "dropped");
    kani::cover!(k1 == 1, "stopped");
    std::mem::forget(a);
    std::mem::forget(s);
}
// @verif prop=C20,C03 tier=quick features=multi-stakker,no-unsafe-queue,logger timeout=1200 mem=24 unwind=10 unwindset=drop_glue::<\[.*Stakker\)>\]>\.0$:4
// @enc ActorRc::new (log_span_open) Actor::terminate Actor::log_termination Core::{log_span_open,log_span_close,log} Stakker::set_logger
// @sym parent id; whether the actor became Ready; two termination requests (cause x payload)
// @bound one actor: create, optional to_ready, terminate twice
// @stub std::hash::RandomState::new -> fixed keys
// @assume multi-stakker,no-unsafe-queue,logger build
actor_harness!(act_log_open_close, log_open_close);

#[cfg(uazu_replay_actor)]
include!(env!("UAZU_STAKKER_REPLAY_FILE"));
