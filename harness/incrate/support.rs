// Shared harness support
use std::time::{Duration, Instant};

/// A fixed base `Instant` (Instant::now() is a syscall Kani cannot model).
/// Layout on unix: Timespec { tv_sec: i64, tv_nsec: u32 } -- 16 bytes.
#[cfg(not(feature = "no-unsafe"))]
pub fn base_instant() -> Instant {
    unsafe { std::mem::transmute::<[u64; 2], Instant>([1000u64, 0u64]) }
}

/// t0 + (secs, nanos)
pub fn at(t0: Instant, secs: u64, nanos: u32) -> Instant {
    t0 + Duration::new(secs, nanos)
}

/// Stub for std::hash::RandomState::new (HashMap `anymap` in Core::new): the real one reads thread-local keys
/// seeded by getrandom, which Kani cannot compile.  The anymap is not under test.
#[cfg(not(feature = "no-unsafe"))]
pub fn fixed_random_state() -> std::hash::RandomState {
    unsafe { std::mem::transmute::<[u64; 2], std::hash::RandomState>([0x1234_5678, 0x9abc_def0]) }
}
