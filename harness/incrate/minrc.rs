// Harnesses for src/rc/minrc.rs (child module: sees MinRc{ptr}, MinRcBox{count,inner}).  Property C16.
//
// @file crate=incrate replay_cfg=uazu_replay_minrc
use super::*;

static mut DROPS: u8 = 0;
struct Payload(u64);
impl Drop for Payload {
    fn drop(&mut self) {
        unsafe { DROPS += 1 };
    }
}
fn drops() -> u8 {
    unsafe { DROPS }
}

// A symbolic sequence of clone/drop operations over up to 4 handles: the payload is dropped exactly once, exactly
// when the last handle goes; it is readable through every live handle until then (CBMC checks every dereference
// for use-after-free / double free; the leak check confirms the box is released).
// @verif prop=C16 tier=quick timeout=1200 mem=8 unwind=7 leakcheck=1
// @enc MinRc::new MinRc::clone MinRc::drop MinRc::inner MinRc::rcbox
// @sym 5 operations, each: clone handle i / drop handle i (i symbolic, live handles only); payload value
// @bound 5 operations, at most 4 simultaneous handles
#[kani::proof]
#[kani::unwind(7)]
fn m_clone_drop_sequence() {
    unsafe { DROPS = 0 };
    let v: u64 = kani::any();
    let mut h: [Option<MinRc<Payload>>; 4] = [Some(MinRc::new(Payload(v))), None, None, None];
    let mut live: u8 = 1;
    let mut step = 0;
    while step < 5 {
        let i: usize = kani::any();
        kani::assume(i < 4);
        let do_clone: bool = kani::any();
        if live > 0 {
            if do_clone {
                // clone handle i into the first empty place
                if h[i].is_some() && live < 4 {
                    let mut c = Some(h[i].as_ref().unwrap().clone());
                    let mut j = 0;
                    while j < 4 {
                        if c.is_some() && h[j].is_none() {
                            h[j] = c.take();
                        }
                        j += 1;
                    }
                    live += 1;
                }
            } else if h[i].is_some() {
                assert!(h[i].as_ref().unwrap().inner().0 == v, "C16: payload changed or freed while referenced");
                h[i] = None;
                live -= 1;
            }
        }
        assert!(drops() == if live == 0 { 1 } else { 0 }, "C16: payload must be dropped exactly once, when the last reference goes");
        step += 1;
    }
    kani::cover!(live == 0, "all handles dropped");
    kani::cover!(live == 4, "four handles live");
    // drop the rest
    let mut j = 0;
    while j < 4 {
        h[j] = None;
        j += 1;
    }
    assert!(drops() == 1, "C16: payload must be dropped exactly once");
}

// Inductive step on the count word: from an ARBITRARY count, clone adds one (saturating), drop subtracts one,
// frees exactly at 1 -> 0, and a count locked at usize::MAX never frees (documented leak instead of a double free).
// @verif prop=C16 tier=quick timeout=1200 mem=6 unwind=4
// @enc MinRc::clone MinRc::drop
// @sym the reference count: any usize >= 1 (constructed); one clone or one drop
// @bound single step (inductive over history length)
#[kani::proof]
#[kani::unwind(4)]
fn m_count_step() {
    unsafe { DROPS = 0 };
    let a = MinRc::new(Payload(1));
    let c: usize = kani::any();
    kani::assume(c >= 1);
    a.rcbox().count.set(c);
    if kani::any() {
        let b = a.clone();
        assert!(a.rcbox().count.get() == if c == usize::MAX { usize::MAX } else { c + 1 }, "C16: clone must add exactly one reference (saturating)");
        std::mem::forget(b);
        std::mem::forget(a);
    } else {
        let raw = a.ptr;
        drop(a);
        if c == 1 {
            assert!(drops() == 1, "C16: last reference must free the payload");
        } else {
            assert!(drops() == 0, "C16: payload freed while references remain");
            let cnt = unsafe { raw.as_ref() }.count.get();
            assert!(cnt == if c == usize::MAX { usize::MAX } else { c - 1 }, "C16: drop must remove exactly one reference (locked at MAX)");
        }
    }
    kani::cover!(c == usize::MAX, "saturated count");
    kani::cover!(c == 1, "last reference");
}

#[cfg(uazu_replay_minrc)]
include!(env!("UAZU_STAKKER_REPLAY_FILE"));
