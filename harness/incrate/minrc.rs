// harness module for minrc (see DESIGN.md)
