// harness module for channel (see DESIGN.md)
