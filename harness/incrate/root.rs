// Crate-root verification module (included from src/lib.rs under
// cfg(all(kani, feature = "uazu-stakker-verif"))).

#[allow(dead_code, unused_imports)]
pub(crate) mod vmap {
    include!(concat!(env!("UAZU_STAKKER_VERIF"), "/model/vmap.rs"));
}

#[allow(dead_code, unused_imports)]
pub(crate) mod vstd {
    include!(concat!(env!("UAZU_STAKKER_VERIF"), "/model/vstd.rs"));
}

#[allow(dead_code, unused_imports)]
pub(crate) mod support {
    include!(concat!(env!("UAZU_STAKKER_VERIF"), "/incrate/support.rs"));
}

#[allow(dead_code, unused_imports)]
mod h_count {
    include!(concat!(env!("UAZU_STAKKER_VERIF"), "/incrate/h_count.rs"));
}

#[allow(dead_code, unused_imports)]
mod h_wakemodel {
    include!(concat!(env!("UAZU_STAKKER_VERIF"), "/incrate/h_wakemodel.rs"));
}

