// Harnesses for src/sync/waker.rs (child module: sees Leaf, Layer, BitMap, PollWaker, WakeHandlers, Array).
// Properties C11 (steps 1 and 1b: extraction of the per-thread atomic-operation programs) and C12 (bookkeeping).
// waker.rs is compiled against the `vstd` facade, whose AtomicUsize logs every operation and can return scripted
// values: an extraction harness runs ONE thread's function with every possible outcome of each of its atomic
// operations and proves that its sequence of (word, operation, argument, ordering) equals that of a small automaton.
// The automata are then interleaved in h_wakemodel.rs (step 2).
//
// @file crate=incrate cfgs=uazu_vstd_scripted replay_cfg=uazu_replay_waker restrict_vtable=1
use super::*;
use crate::uazu_stakker_verif::vstd::sync::atomic::{log_event, trace, Event, EVMAX, OP_CALLBACK, OP_OR, OP_SWAP};

fn trace_reset(scripted: bool) {
    let t = trace();
    t.n = 0;
    t.k = 0;
    t.scripted = scripted;
}
fn addr_of(l: &Leaf) -> usize {
    &l.bitmap as *const AtomicUsize as usize
}
fn new_pollwaker() -> Arc<PollWaker> {
    Arc::new(PollWaker::new(Box::new(|| log_event(0, OP_CALLBACK, 0, 4, 0))))
}
// memory-order policy (DESIGN §4 C11): every setting RMW at least Release, every draining RMW at least Acquire
fn is_release(ord: u8) -> bool {
    ord == 1 || ord == 3 || ord == 4
}
fn is_acquire(ord: u8) -> bool {
    ord == 2 || ord == 3 || ord == 4
}

// ---- step 1: the waking thread's program ----
// BitMap::set(bit) (== Waker::wake) against the automaton
//   fetch_or(leaf[a], 1<<b) ; if old == 0: fetch_or(summary, 1<<a) ; if old == 0: fetch_or(top, 1<<wake_index) ; if old == 0: callback
// for EVERY outcome of every operation, every bit, base index and wake index.
// @verif prop=C11 tier=quick timeout=1200 mem=10 unwind=10
// @enc sync::waker::BitMap::set sync::waker::Leaf::set sync::waker::Waker::wake (PollWaker callback invocation)
// @sym bit offset 0..4095, base index (multiple of 4096), wake index 0..63, and the value returned by each atomic operation (any usize)
// @bound one wake(): at most 3 atomic operations (loop-free)
// @assume AtomicUsize replaced by the logging shim of harness/model/vstd.rs returning arbitrary values: all outcomes a concurrent execution can produce for each single operation
#[kani::proof]
#[kani::unwind(10)]
fn w_set_equiv() {
    let pw = new_pollwaker();
    let k: u32 = kani::any();
    kani::assume(k < (1 << 19));
    let base = k * BitMap::SIZE;
    let wi: u32 = kani::any();
    kani::assume(wi < USIZE_BITS);
    let bm = Arc::new(BitMap::new(base, wi, pw.clone()));
    let off: u32 = kani::any();
    kani::assume(off < BitMap::SIZE);
    let waker = Waker { bit: base + off, bitmap: bm.clone() };
    trace_reset(true);
    let t = trace();
    t.script[0] = kani::any();
    t.script[1] = kani::any();
    t.script[2] = kani::any();
    waker.wake();
    let a = off >> USIZE_INDEX_BITS;
    let b = off & (USIZE_BITS - 1);
    let (r0, r1, r2) = (t.script[0], t.script[1], t.script[2]);
    // expected event sequence
    let mut n = 1;
    assert!(t.ev[0].addr == addr_of(&bm.tree.child[a]) && t.ev[0].op == OP_OR && t.ev[0].arg == 1usize << b && t.ev[0].ret == r0,
            "C11: first operation of wake() must be fetch_or of the waker's bit on its leaf word");
    assert!(is_release(t.ev[0].ord), "C11: leaf fetch_or must be at least Release (publishes the waker's writes)");
    if r0 == 0 {
        n = 2;
        assert!(t.ev[1].addr == addr_of(&bm.tree.summary) && t.ev[1].op == OP_OR && t.ev[1].arg == 1usize << a && t.ev[1].ret == r1,
                "C11: a wake that found its leaf word empty must set the leaf's bit in the bitmap summary");
        assert!(is_release(t.ev[1].ord), "C11: summary fetch_or must be at least Release");
        if r1 == 0 {
            n = 3;
            assert!(t.ev[2].addr == addr_of(&pw.summary) && t.ev[2].op == OP_OR && t.ev[2].arg == 1usize << wi && t.ev[2].ret == r2,
                    "C11: a wake that found the bitmap summary empty must set the bitmap's bit in the poll-waker summary");
            assert!(is_release(t.ev[2].ord), "C11: top-level fetch_or must be at least Release");
            if r2 == 0 {
                n = 4;
                assert!(t.ev[3].op == OP_CALLBACK, "C11: a wake that found every level empty must invoke the poll-waker callback");
            }
        }
    }
    assert!(t.n == n, "C11: wake() performed an atomic operation / callback that the protocol does not have, or skipped one");
    kani::cover!(n == 4, "callback reached");
    kani::cover!(n == 1, "stops at the leaf");
    kani::cover!(n == 3, "stops at the top level");
    std::mem::forget(waker);
}

// ---- step 1: Waker::drop = lock; push(bit); set(base_index); unlock ----
// @verif prop=C12,C11 tier=quick timeout=1200 mem=16 unwind=10
// @enc sync::waker::Waker::drop sync::waker::BitMap::set
// @sym outcome of each atomic operation (any usize); position concrete (bitmap 2, bit 77, slot 2)
// @bound one drop
// @assume AtomicUsize shim with scripted (arbitrary) results; sequential Mutex stand-in
#[kani::proof]
#[kani::unwind(10)]
fn w_drop_equiv() {
    let pw = new_pollwaker();
    // concrete position (symbolic positions are covered by w_set_equiv; a symbolic number pushed into the
    // mutex-protected Vec exhausts memory in propositional reduction), symbolic outcomes of the atomic operations
    let base = 2 * BitMap::SIZE;
    let wi: u32 = 2;
    let bm = Arc::new(BitMap::new(base, wi, pw.clone()));
    let off: u32 = 77;
    let waker = Waker { bit: base + off, bitmap: bm.clone() };
    trace_reset(true);
    let t = trace();
    t.script[0] = kani::any();
    t.script[1] = kani::any();
    t.script[2] = kani::any();
    drop(waker);
    // the dropped waker's number is on the drop list, exactly once
    let dl = pw.drop_list.lock().unwrap();
    assert!(dl.len() == 1 && dl[0] == base + off, "C12: drop must record the waker's number exactly once");
    drop(dl);
    // and the reserved slot 0 of the bitmap was woken: leaf 0, bit 0
    assert!(t.n >= 1 && t.ev[0].addr == addr_of(&bm.tree.child[0]) && t.ev[0].op == OP_OR && t.ev[0].arg == 1, "C12: drop must wake the bitmap's reserved drop slot");
    let n = if t.script[0] != 0 { 1 } else if t.script[1] != 0 { 2 } else if t.script[2] != 0 { 3 } else { 4 };
    assert!(t.n == n, "C12: drop's wake is not the wake() protocol");
    kani::cover!(n == 4, "callback reached");
}

// Waker::drop while another thread is inside the drop-list critical section: it must wait, never skip the record.
// @verif prop=C12 tier=quick timeout=1200 mem=16 unwind=10
// @enc sync::waker::Waker::drop
// @sym none (the lock is held by a simulated other thread)
// @bound one drop attempted while the drop-list mutex is held elsewhere
// @assume sequential Mutex stand-in: lock() on a mutex held by another thread blocks (path ends); try_lock() fails
#[kani::proof]
#[kani::unwind(10)]
fn w_drop_waits_for_lock() {
    let pw = new_pollwaker();
    let bm = Arc::new(BitMap::new(0, 0, pw.clone()));
    let waker = Waker { bit: 9, bitmap: bm.clone() };
    trace_reset(true);
    pw.drop_list.set_held_by_other(true);
    drop(waker);
    // reaching this point means drop() returned although the lock was never available
    pw.drop_list.set_held_by_other(false);
    let recorded = pw.drop_list.lock().unwrap().len() == 1;
    assert!(recorded, "C12: Waker::drop returned without recording the drop (it must wait for the drop-list lock)");
}

// ---- step 1b: the collecting thread's program for one bitmap ----
// BitMap::drain against: s = swap(summary, 0); for a in bits(s) ascending { l = swap(leaf[a], 0); for b in bits(l) ascending { emit base+(a<<6)+b } }
const OUTN: usize = 6;
// @verif prop=C11,C12 tier=quick timeout=1500 mem=12 unwind=6 unwindset=Leaf(::|5)drain.*\.0$:4
// @enc sync::waker::BitMap::drain sync::waker::Leaf::drain
// @sym base index; the values returned by the swaps: summary with <= 2 bits set, each leaf with <= 2 bits set (any positions)
// @bound <= 2 leaves x <= 2 bits (3 swaps, 4 emitted numbers)
// @assume AtomicUsize shim with scripted results (every outcome of each swap within the bit-count bound)
#[kani::proof]
#[kani::unwind(6)]
fn w_drain_equiv() {
    let pw = new_pollwaker();
    let k: u32 = kani::any();
    kani::assume(k < 16);
    let base = k * BitMap::SIZE;
    let bm = BitMap::new(base, 0, pw.clone());
    trace_reset(true);
    let t = trace();
    let (s, l0, l1): (usize, usize, usize) = (kani::any(), kani::any(), kani::any());
    kani::assume(s.count_ones() <= 2 && l0.count_ones() <= 2 && l1.count_ones() <= 2);
    t.script[0] = s;
    t.script[1] = l0;
    t.script[2] = l1;
    let mut out = [0u32; OUTN];
    let mut on = 0usize;
    bm.drain(|bit| {
        if on < OUTN {
            out[on] = bit;
        }
        on += 1;
    });
    // automaton
    let mut en = 0usize; // expected events
    let mut xo = [0u32; OUTN];
    let mut xn = 0usize;
    assert!(t.n >= 1 && t.ev[0].addr == addr_of(&bm.tree.summary) && t.ev[0].op == OP_SWAP && t.ev[0].arg == 0, "C11: collection of a bitmap must start by swapping its summary word with 0");
    assert!(is_acquire(t.ev[0].ord), "C11: summary swap must be at least Acquire");
    en += 1;
    let mut sb = s;
    let mut li = 0;
    while sb != 0 {
        let a = sb.trailing_zeros();
        sb &= sb - 1;
        let lv = if li == 0 { l0 } else { l1 };
        li += 1;
        assert!(t.n > en && t.ev[en].addr == addr_of(&bm.tree.child[a]) && t.ev[en].op == OP_SWAP && t.ev[en].arg == 0,
                "C11: every leaf flagged in the summary must be swapped with 0, in ascending order");
        assert!(is_acquire(t.ev[en].ord), "C11: leaf swap must be at least Acquire (sees the waker's writes)");
        en += 1;
        let mut lb = lv;
        while lb != 0 {
            let b = lb.trailing_zeros();
            lb &= lb - 1;
            if xn < OUTN {
                xo[xn] = base + (a << USIZE_INDEX_BITS) + b;
            }
            xn += 1;
        }
    }
    assert!(t.n == en, "C11: collection performed an atomic operation the protocol does not have (or skipped one)");
    assert!(on == xn, "C11: collection lost or invented a wake-up");
    let mut i = 0;
    while i < 4 {
        if i < xn {
            assert!(out[i] == xo[i], "C11: collection reported the wrong waker number");
        }
        i += 1;
    }
    kani::cover!(xn == 4, "two leaves with two bits each");
    kani::cover!(s != 0 && l0 == 0, "flagged leaf already empty (spurious)");
}

// ---- step 1b (outer level): WakeHandlers::wake_list = swap(top,0); slots ascending; bitmaps of a slot in Vec order ----
// (disabled, tier=off: with a sufficient unwinding bound the query did not finish in 20 min; the nesting of wake_list
//  -- slots ascending, bitmaps of a slot in Vec order -- is therefore read from the source, not extracted)
// @verif prop=C11,C12 tier=off timeout=1200 mem=16 unwind=10 unwindset=Leaf(::|5)drain.*\.0$:3
// @enc sync::waker::WakeHandlers::wake_list sync::waker::BitMap::drain sync::waker::Leaf::drain
// @sym values returned by the swaps: top word any subset of slots {1,3}; each bitmap summary <= 1 bit; each leaf <= 2 bits
// @bound three bitmaps (two share slot 1, one in slot 3); <= 1 leaf per bitmap, <= 2 bits per leaf
// @assume AtomicUsize shim with scripted results
#[kani::proof]
#[kani::unwind(10)]
fn w_wake_list_equiv() {
    let mut wh = WakeHandlers::new(Box::new(|| log_event(0, OP_CALLBACK, 0, 4, 0)));
    let pw = wh.pollwaker.clone();
    let bm_a = Arc::new(BitMap::new(0, 1, pw.clone()));
    let bm_b = Arc::new(BitMap::new(64 * BitMap::SIZE, 1, pw.clone()));
    let bm_c = Arc::new(BitMap::new(3 * BitMap::SIZE, 3, pw.clone()));
    wh.bitmaps[1].push(bm_a.clone());
    wh.bitmaps[1].push(bm_b.clone());
    wh.bitmaps[3].push(bm_c.clone());
    trace_reset(true);
    let t = trace();
    let top: usize = kani::any();
    kani::assume(top & !0b1010 == 0);
    t.script[0] = top;
    let mut k = 1;
    while k < 8 {
        let v: usize = kani::any();
        kani::assume(v.count_ones() <= if k % 2 == 1 { 1 } else { 2 }); // summaries (odd positions when present) <= 1 bit
        t.script[k] = v;
        k += 1;
    }
    let out = wh.wake_list();
    // automaton
    assert!(t.n >= 1 && t.ev[0].addr == addr_of(&pw.summary) && t.ev[0].op == OP_SWAP && t.ev[0].arg == 0 && is_acquire(t.ev[0].ord),
            "C11: poll_wake must start by swapping the poll-waker summary with 0 (Acquire or stronger)");
    let mut en = 1usize;
    let mut xn = 0usize;
    let order: [(&Arc<BitMap>, u32); 3] = [(&bm_a, 1), (&bm_b, 1), (&bm_c, 3)];
    let mut j = 0;
    while j < 3 {
        let (bm, slot) = order[j];
        if (top >> slot) & 1 == 1 {
            // this bitmap is drained: summary swap, then flagged leaves
            assert!(t.n > en && t.ev[en].addr == addr_of(&bm.tree.summary) && t.ev[en].op == OP_SWAP, "C11: every bitmap of a flagged slot must be drained, slots ascending, Vec order inside a slot");
            let s = t.ev[en].ret;
            en += 1;
            if s != 0 {
                let a = s.trailing_zeros();
                assert!(t.n > en && t.ev[en].addr == addr_of(&bm.tree.child[a]) && t.ev[en].op == OP_SWAP, "C11: flagged leaf must be swapped");
                let l = t.ev[en].ret;
                en += 1;
                let mut lb = l;
                while lb != 0 {
                    let b = lb.trailing_zeros();
                    lb &= lb - 1;
                    assert!(xn < out.len() && out[xn] == bm.base_index + (a << USIZE_INDEX_BITS) + b, "C11: wake_list lost, invented or misnumbered a wake-up");
                    xn += 1;
                }
            }
        }
        j += 1;
    }
    assert!(t.n == en && out.len() == xn, "C11: wake_list performed an operation the protocol does not have, or returned extra numbers");
    kani::cover!(top == 0b1010 && xn >= 2, "both slots flagged");
    kani::cover!(top == 0, "nothing flagged");
    std::mem::forget(wh);
}

// ---- a Waker created when the first bitmap (4096 numbers) is full: second bitmap, its own reserved drop slot ----
// (disabled: filling the slab with 4096 entries did not finish symbolic execution in 40 min)
// @verif prop=C12,C11,C13 tier=off cfgs= timeout=2400 mem=24 unwind=10 unwindset=w_second_bitmap.*\.0$:4098,Leaf(::|5)drain.*\.0$:3
// @enc sync::waker::WakeHandlers::{add,wake_list,drop_list,del} sync::waker::Waker::{wake,drop} sync::waker::BitMap::{new,set,drain}
// @sym none (concrete: the slab is pre-filled with 4096 entries so that the next numbers fall into the second bitmap)
// @bound one Waker in the second bitmap: add, wake, wake_list, drop, drop_list
// @assume atomics with real semantics (non-scripted build); sequential Mutex stand-in
#[kani::proof]
#[kani::unwind(10)]
fn w_second_bitmap() {
    let mut wh = WakeHandlers::new(Box::new(|| ()));
    wh.slab = Slab::with_capacity(4104);
    let mut i = 0;
    while i < 4096 {
        let k = wh.slab.insert(None);
        assert!(k == i);
        i += 1;
    }
    let w = wh.add(|_s, _d| {});
    assert!(w.bit >= BitMap::SIZE && w.bit % BitMap::SIZE != 0, "C12: a Waker was given the reserved drop slot of its bitmap");
    assert!(w.bitmap.base_index == BitMap::SIZE, "waker must live in the second bitmap");
    // the reserved slot of the second bitmap holds the drop handler
    assert!(wh.slab.contains(BitMap::SIZE as usize) && wh.slab.get(BitMap::SIZE as usize).unwrap().is_some(), "C12: second bitmap has no drop handler in its reserved slot");
    w.wake();
    let l = wh.wake_list();
    assert!(l.len() == 1 && l[0] == w.bit, "C11/C13: a wake in the second bitmap is never collected (stranded)");
    let bit = w.bit;
    drop(w);
    let l2 = wh.wake_list();
    assert!(l2.len() == 1 && l2[0] == BitMap::SIZE, "C12: dropping a Waker of the second bitmap must wake that bitmap's reserved drop slot");
    let dl = wh.drop_list();
    assert!(dl.len() == 1 && dl[0] == bit, "C12: drop not recorded");
    assert!(wh.del(bit).is_some(), "C12: dropped Waker's handler must be removable");
    assert!(wh.del(BitMap::SIZE).is_none(), "C12: the reserved drop slot must never be deleted");
    std::mem::forget(wh);
}

#[cfg(uazu_replay_waker)]
include!(env!("UAZU_STAKKER_REPLAY_FILE"));


