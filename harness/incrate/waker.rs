// harness module for waker (see DESIGN.md)
