// Harnesses for the heterogeneous byte buffer under the flat queue (src/queue/flat.rs, mod hvec).
// Child module of `hvec`: sees HVec{ptr,len,cap}, Drain{pos,end}, align, align_off.
// Properties: C17 (storage layer), C16 (memory safety of the unsafe buffer code), C01 (any capture size/alignment).
//
// @file crate=incrate replay_cfg=uazu_replay_hvec
use super::*;

const VPS: usize = mem::size_of::<VP>();

// Compile-time worst-case space of one (VP, T) item, as HVec::push computes it
const fn req_of<T>() -> usize {
    let r = align_off(VPS, mem::align_of::<T>()) + mem::size_of::<T>();
    align_off(r, mem::align_of::<VP>())
}

// One push of a (VP, T) item into a buffer of capacity CAP from an ARBITRARY 8-aligned fill level, then one
// drain step positioned at that fill level: the inductive step of "the buffer is a FIFO of well-formed items".
// The symbolic fill level also stands in for the misalignment of the buffer base (CBMC gives every allocation
// a maximally aligned base): p = base + len, so (p mod align T) ranges over every multiple of 8.
fn push_step<T: Copy + PartialEq + kani::Arbitrary, const CAP: usize>() {
    let mut hv = HVec::with_size(CAP);
    let len: usize = kani::any();
    kani::assume(len <= CAP && len % VPS == 0);
    hv.len = len;
    let base = hv.ptr;
    let val: T = kani::any();
    let vp_tag: usize = kani::any();
    let vp = vp_tag as VP;
    let req = req_of::<T>();
    let mut expanded = false;
    let exp = &mut expanded;
    hv.push(vp, val, |h: &mut HVec, r: usize| {
        // what FnOnceQueue::expand_storage guarantees: a fresh buffer with at least `r` bytes free
        assert!(r == req_of::<T>(), "C17: expand asked for a size other than the item's worst case");
        *exp = true;
        let new = HVec::with_size(CAP + req_of::<T>() + 64);
        let old = mem::replace(h, new);
        drop(old);
    });
    // growth happens exactly when the worst-case requirement does not fit
    assert!(expanded == (req > CAP - len), "C17: growth decision differs from the worst-case space rule");
    let start = if expanded { 0 } else { len };
    assert!(expanded || hv.ptr == base);
    assert!(hv.len <= hv.cap, "C16: buffer length exceeds capacity after push");
    assert!(hv.len % VPS == 0, "C17: fill level not aligned for the next vtable word");
    assert!(hv.len > start && hv.len - start <= req, "C17: item uses more than its worst-case space");
    assert!(hv.len - start >= VPS + mem::size_of::<T>());
    // drain exactly that item
    let end_len = hv.len;
    let bufp = hv.ptr as usize;
    let mut it = hv.drain();
    it.pos = unsafe { it.pos.add(start) };
    unsafe {
        let got = it.next_vp();
        assert!(got == Some(vp), "C17: vtable word not read back");
        let p = it.next_unchecked(Layout::new::<T>()) as *mut T;
        assert!((p as usize) % mem::align_of::<T>() == 0, "C16: item pointer misaligned for its type");
        let off = (p as usize) - bufp;
        assert!(off >= start + VPS && off + mem::size_of::<T>() <= end_len, "C16: item outside the written region");
        assert!(*p == val, "C17: captured bytes differ after the round trip");
        assert!(it.pos == it.end, "C17: drain does not end exactly at the fill level");
        assert!(it.next_vp().is_none());
    }
    kani::cover!(expanded, "push had to grow");
    kani::cover!(!expanded && len > 0, "push into a partly filled buffer");
    kani::cover!(!expanded && CAP - len == req, "exactly fits");
}

macro_rules! aligned_type {
    ($name:ident, $align:literal, $words:literal) => {
        #[derive(Copy, Clone)]
        #[repr(align($align))]
        struct $name([u64; $words]);
        impl PartialEq for $name {
            fn eq(&self, o: &Self) -> bool {
                // word-wise (the derived == is a byte-wise memcmp loop)
                let mut i = 0;
                let mut same = true;
                while i < $words {
                    same &= self.0[i] == o.0[i];
                    i += 1;
                }
                same
            }
        }
        impl kani::Arbitrary for $name {
            fn any() -> Self {
                $name(kani::any())
            }
        }
    };
}
aligned_type!(A16x2, 16, 2);
aligned_type!(A32x4, 32, 4);
aligned_type!(A64x8, 64, 8);
aligned_type!(A128x16, 128, 16);
aligned_type!(A64x17, 64, 24); // 136 bytes of payload rounded to 192 by the alignment

macro_rules! push_harness {
    ($name:ident, $t:ty, $cap:literal) => {
        #[kani::proof]
        #[kani::unwind(34)]
        fn $name() {
            push_step::<$t, $cap>();
        }
    };
}

// @verif prop=C17,C16,C01 tier=quick timeout=1200 mem=6 unwind=34 leakcheck=1
// @enc hvec::HVec::push hvec::HVec::with_size hvec::HVec::drain hvec::Drain::next_vp hvec::Drain::next_unchecked hvec::align hvec::align_off hvec::HVec::drop
// @sym fill level: every multiple of 8 in 0..=256; payload bytes and vtable word arbitrary
// @bound one push + one drain step from an arbitrary fill level (inductive step); T = zero-sized; capacity 256
// @assume growth callback = harness closure honouring expand_storage's contract (fresh buffer with >= req free); CBMC bases are maximally aligned
push_harness!(h_push_zst, (), 256);
// @verif prop=C17,C16,C01 tier=quick timeout=1200 mem=6 unwind=34 leakcheck=1
// @enc as h_push_zst
// @sym as h_push_zst; T = u8 (size 1, align 1)
// @bound one push + one drain step from an arbitrary fill level; capacity 256
// @assume as h_push_zst
push_harness!(h_push_u8, u8, 256);
// @verif prop=C17,C16,C01 tier=quick timeout=1200 mem=6 unwind=34 leakcheck=1
// @enc as h_push_zst
// @sym as h_push_zst; T = [u8;7] (size 7, align 1)
// @bound one push + one drain step; capacity 256
// @assume as h_push_zst
push_harness!(h_push_b7, [u8; 7], 256);
// @verif prop=C17,C16,C01 tier=quick timeout=1200 mem=6 unwind=34 leakcheck=1
// @enc as h_push_zst
// @sym as h_push_zst; T = [u64;3] (size 24, align 8)
// @bound one push + one drain step; capacity 256
// @assume as h_push_zst
push_harness!(h_push_w3, [u64; 3], 256);
// @verif prop=C17,C16,C01 tier=quick timeout=1200 mem=6 unwind=34 leakcheck=1
// @enc as h_push_zst
// @sym as h_push_zst; T = 16-aligned 16 bytes
// @bound one push + one drain step; capacity 256
// @assume as h_push_zst
push_harness!(h_push_a16, A16x2, 256);
// @verif prop=C17,C16,C01 tier=quick timeout=1200 mem=6 unwind=34 leakcheck=1
// @enc as h_push_zst
// @sym as h_push_zst; T = 32-aligned 32 bytes
// @bound one push + one drain step; capacity 256
// @assume as h_push_zst
push_harness!(h_push_a32, A32x4, 256);
// @verif prop=C17,C16,C01 tier=quick timeout=1200 mem=6 unwind=34 leakcheck=1
// @enc as h_push_zst
// @sym as h_push_zst; T = 64-aligned 64 bytes; fill level every multiple of 8 in 0..=512
// @bound one push + one drain step; capacity 512
// @assume as h_push_zst
push_harness!(h_push_a64, A64x8, 512);
// @verif prop=C17,C16,C01 tier=thorough timeout=1500 mem=24 unwind=34 leakcheck=1
// @enc as h_push_zst
// @sym as h_push_zst; T = 128-aligned 128 bytes; fill level every multiple of 8 in 0..=1024
// @bound one push + one drain step; capacity 1024
// @assume as h_push_zst
push_harness!(h_push_a128, A128x16, 1024);
// @verif prop=C17,C16 tier=thorough timeout=1500 mem=24 unwind=34 leakcheck=1
// @enc as h_push_zst
// @sym as h_push_zst; T = 64-aligned 192 bytes; capacity 1024
// @bound one push + one drain step; capacity 1024
// @assume as h_push_zst
push_harness!(h_push_a64_big, A64x17, 1024);

// more capture shapes (thorough)
// @verif prop=C17,C16 tier=thorough timeout=2400 mem=12 unwind=44 leakcheck=1
// @enc as h_push_zst
// @sym as h_push_zst; T = [u64;5] (size 40, align 8); capacity 256
// @bound one push + one drain step from an arbitrary fill level
// @assume as h_push_zst
push_harness!(h_push_w5, [u64; 5], 256);
// @verif prop=C17,C16 tier=thorough timeout=2400 mem=12 unwind=34 leakcheck=1
// @enc as h_push_zst
// @sym as h_push_zst; T = [u32;3] (size 12, align 4); capacity 128
// @bound one push + one drain step from an arbitrary fill level
// @assume as h_push_zst
push_harness!(h_push_d3, [u32; 3], 128);
// @verif prop=C17,C16 tier=thorough timeout=2400 mem=12 unwind=34 leakcheck=1
// @enc as h_push_zst
// @sym as h_push_zst; T = [u16;5] (size 10, align 2); capacity 128
// @bound one push + one drain step from an arbitrary fill level
// @assume as h_push_zst
push_harness!(h_push_h5, [u16; 5], 128);

// align(): result is the next multiple of pow2 at or after p, less than pow2 away, for every pow2 alignment 1..128
// @verif prop=C17,C16 tier=quick timeout=1200 mem=6 unwind=10
// @enc hvec::align hvec::align_off
// @sym offset into a 512-byte buffer: any; alignment: any power of two 1..128
// @bound single call
#[kani::proof]
#[kani::unwind(10)]
fn h_align_lemma() {
    let off: usize = kani::any();
    let sh: u32 = kani::any();
    kani::assume(sh <= 7 && off <= 300);
    let pow2 = 1usize << sh;
    let a = align_off(off, pow2);
    assert!(a >= off && a - off < pow2 && a % pow2 == 0);
    let hv = HVec::with_size(512);
    let p = unsafe { hv.ptr.add(off) };
    let q = unsafe { align(p, pow2) };
    let d = (q as usize) - (p as usize);
    assert!(d < pow2 && (q as usize) % pow2 == 0 && d == a - off);
    kani::cover!(d == pow2 - 1, "maximum padding");
    kani::cover!(d == 0 && pow2 > 1, "already aligned");
}


// ------------------------------------------------------------------------------------------
// expand_storage: growth from an arbitrary constructed buffer state
// ------------------------------------------------------------------------------------------
type Q<S> = super::super::FnOnceQueue<S>;

fn expand_step<const CAP: usize>() {
    let mut hv = if CAP == 0 { HVec::new() } else { HVec::with_size(CAP) };
    let len: usize = kani::any();
    kani::assume(len <= CAP && len % VPS == 0);
    hv.len = len;
    let req: usize = kani::any();
    kani::assume(req % VPS == 0 && req >= VPS && req <= 4200);
    kani::assume(req > CAP - len); // push() calls expand only when the item does not fit
    Q::<u64>::expand_storage(&mut hv, req);
    let chain = mem::size_of::<(*mut (), Q<()>)>();
    assert!(hv.cap.is_power_of_two() && hv.cap >= 1024, "C17: new capacity is not a power of two >= 1 KiB");
    assert!(hv.cap > CAP, "C17: growth did not grow");
    assert!(hv.cap - hv.len >= req, "C17: not enough room for the pending item after growth");
    assert!(hv.len == if len != 0 { chain } else { 0 }, "C17: old buffer must be chained as the first item iff it was non-empty");
    assert!(hv.cap < 4 * (CAP + req + chain) || hv.cap == 1024, "C17: growth over-allocates");
    kani::cover!((len != 0 && hv.cap - hv.len - req < 32) || CAP == 0 || CAP >= 4096, "pending item fits only because the chained old buffer was accounted for");
    kani::cover!(len == 0, "empty buffer replaced");
    kani::cover!((len != 0 && req > 2048) || CAP == 0, "large item");
    mem::forget(hv); // the (symbolic-length) old buffer holds no real items: nothing may walk it
}

macro_rules! expand_harness {
    ($name:ident, $cap:literal) => {
        #[kani::proof]
        #[kani::unwind(4)]
        fn $name() {
            expand_step::<$cap>();
        }
    };
}
// @verif prop=C17,C16,C01 tier=quick timeout=1200 mem=8 unwind=4 restrict_vtable=1
// @enc queue::flat::FnOnceQueue::expand_storage queue::flat::FnOnceQueue::push_aux hvec::HVec::push hvec::HVec::with_size
// @sym no buffer yet (capacity 0); pending item requirement req: every multiple of 8 in 8..=4200
// @bound one growth step from the initial state
// @assume buffer contents are not walked (mem::forget at the end)
expand_harness!(h_expand_from_empty, 0);
// @verif prop=C17,C16,C01 tier=quick timeout=1200 mem=8 unwind=4 restrict_vtable=1
// @enc as h_expand_from_empty
// @sym capacity 1024, fill level every multiple of 8 in 0..=1024, req every multiple of 8 in 8..=4200 that does not fit
// @bound one growth step from an arbitrary fill level (inductive step over the 1 KiB boundary)
// @assume as h_expand_from_empty
expand_harness!(h_expand_from_1k, 1024);
// @verif prop=C17,C16,C01 tier=quick timeout=1200 mem=8 unwind=4 restrict_vtable=1
// @enc as h_expand_from_empty
// @sym capacity 2048, fill level every multiple of 8 in 0..=2048, req every multiple of 8 in 8..=4200 that does not fit
// @bound one growth step from an arbitrary fill level (2 KiB boundary)
// @assume as h_expand_from_empty
expand_harness!(h_expand_from_2k, 2048);
// @verif prop=C17,C16 tier=thorough timeout=1500 mem=24 unwind=4 restrict_vtable=1
// @enc as h_expand_from_empty
// @sym capacity 4096, fill level every multiple of 8, req as above
// @bound one growth step from an arbitrary fill level (4 KiB boundary)
// @assume as h_expand_from_empty
expand_harness!(h_expand_from_4k, 4096);

// ------------------------------------------------------------------------------------------
// Queue level: the flat queue against the boxed queue (src/queue/boxed.rs compiled beside it)
// ------------------------------------------------------------------------------------------
mod boxed {
    include!(concat!(env!("UAZU_STAKKER_REPO"), "/src/queue/boxed.rs"));
}

pub(crate) struct Log {
    n: usize,
    ids: [u8; 6],
    vals: [u64; 6],
}
impl Log {
    fn new() -> Self {
        Self { n: 0, ids: [0; 6], vals: [0; 6] }
    }
    fn rec(&mut self, id: u8, v: u64) {
        if self.n < 6 {
            self.ids[self.n] = id;
            self.vals[self.n] = v;
        }
        self.n += 1;
    }
    fn same(&self, o: &Log) -> bool {
        let mut ok = self.n == o.n;
        let mut i = 0;
        while i < 6 {
            ok &= self.ids[i] == o.ids[i] && self.vals[i] == o.vals[i];
            i += 1;
        }
        ok
    }
}

static mut DROPS: [u8; 8] = [0; 8];
struct Tok(u8);
impl Drop for Tok {
    fn drop(&mut self) {
        unsafe { DROPS[self.0 as usize] += 1 };
    }
}
fn drops(i: usize) -> u8 {
    unsafe { DROPS[i] }
}

// The closure shapes pushed by the queue harnesses (each is one concrete type):
//   z(id): captures nothing (ZST);  w(id, v, tok): 8-byte payload + drop token;
//   a32(id, a, tok): 32-aligned 32-byte payload + token;  big(id, first, last, tok): 1000-byte payload
macro_rules! push_script {
    ($q:expr, $base:expr, $v:expr, $a:expr, $big:expr) => {{
        let (v, a) = ($v, $a);
        $q.push(move |s: &mut Log| s.rec(1, 0));
        let t = Tok($base + 1);
        $q.push(move |s: &mut Log| {
            s.rec(2, v);
            drop(t);
        });
        let t = Tok($base + 2);
        $q.push(move |s: &mut Log| {
            s.rec(3, a.0[0] ^ a.0[3]);
            drop(t);
        });
        if $big {
            let mut payload = [0u8; 1000];
            payload[0] = v as u8;
            payload[999] = (v >> 8) as u8;
            let t = Tok($base + 3);
            $q.push(move |s: &mut Log| {
                s.rec(4, payload[0] as u64 + ((payload[999] as u64) << 8) + payload[500] as u64);
                drop(t);
            });
            let t = Tok($base);
            $q.push(move |s: &mut Log| {
                s.rec(5, v.wrapping_add(1));
                drop(t);
            });
        }
    }};
}

// One script, one specification, two implementations: each queue type is checked against the SAME
// deterministic specification (what ran, in which order, with which captured data; every token dropped exactly
// once) for every symbolic input, so their observable behaviour is identical on the script.
macro_rules! queue_spec {
    ($qty:ty, $run:expr, $big:expr) => {{
        unsafe { DROPS = [0; 8] };
        let v: u64 = kani::any();
        let a: A32x4 = kani::any();
        let big: bool = $big;
        let mut q: $qty = <$qty>::new();
        assert!(q.is_empty());
        push_script!(q, 0u8, v, a, big);
        assert!(!q.is_empty());
        let mut l = Log::new();
        if $run {
            q.execute(&mut l);
            assert!(q.is_empty(), "C17: queue not empty after execute");
            assert!(l.n == if big { 5 } else { 3 }, "C01: not every pushed closure ran exactly once");
            assert!(l.ids[0] == 1 && l.ids[1] == 2 && l.vals[1] == v && l.ids[2] == 3 && l.vals[2] == (a.0[0] ^ a.0[3]),
                    "C01/C17: order or captured data wrong");
            if big {
                assert!(l.ids[3] == 4 && l.vals[3] == (v as u8) as u64 + ((((v >> 8) as u8) as u64) << 8) && l.ids[4] == 5 && l.vals[4] == v.wrapping_add(1),
                        "C01/C17: order or captured data wrong across the buffer growth");
            }
            // a second execute runs nothing
            q.execute(&mut l);
            assert!(l.n == if big { 5 } else { 3 }, "C01: a closure ran twice");
        }
        drop(q);
        if !$run {
            assert!(l.n == 0, "C01: a closure ran although the queue was dropped un-run");
        }
        assert!(drops(1) == 1 && drops(2) == 1, "C16/C17: a captured value was not dropped exactly once");
        if big {
            assert!(drops(3) == 1 && drops(0) == 1, "C16/C17: a captured value was not dropped exactly once (growth path)");
        }
        kani::cover!(true, "script completed");
    }};
}

// @verif prop=C17,C16,C01 tier=off timeout=1500 mem=24 unwind=9 restrict_vtable=1 leakcheck=1 unwindset=fn:FnOnceQueue::<.*>::execute$:1,fn:FnOnceQueue<.*Drop>::drop$:1,drain_for_each.*\.0$:5
// @enc queue::flat::FnOnceQueue::{new,push,push_aux,execute,is_empty,drop,drain_for_each,expand_storage} hvec::* CallItem::{call,drop}
// @sym payload word v, 32-aligned 32-byte payload a (all bytes)
// @bound 3 closures (ZST; 8-byte + drop token; 32-aligned + token) in one 1 KiB buffer, executed twice then dropped; recursion of execute/drop cut at the first re-entry (proved unreachable: no chained buffer exists)
// @assume -Z restrict-vtable (dyn calls limited to implementors of the trait)
#[kani::proof]
#[kani::unwind(9)]
fn q_flat_exec() {
    queue_spec!(Q<Log>, true, false);
}
// @verif prop=C17,C16,C01 tier=off timeout=1500 mem=24 unwind=9 restrict_vtable=1 leakcheck=1 unwindset=fn:FnOnceQueue::<.*>::execute$:1,fn:FnOnceQueue<.*Drop>::drop$:1,drain_for_each.*\.0$:5
// @enc as q_flat_exec (drop path: CallItem::drop / drop_in_place)
// @sym as q_flat_exec
// @bound 3 closures pushed, queue dropped un-run
// @assume -Z restrict-vtable
#[kani::proof]
#[kani::unwind(9)]
fn q_flat_drop() {
    queue_spec!(Q<Log>, false, false);
}
// @verif prop=C17,C18 tier=quick timeout=1200 mem=20 unwind=9 restrict_vtable=1 leakcheck=1
// @enc queue::boxed::FnOnceQueue::{new,push,execute,is_empty} (src/queue/boxed.rs compiled beside the flat queue)
// @sym as q_flat_exec
// @bound the same 3-closure script, executed twice then dropped
// @assume -Z restrict-vtable
#[kani::proof]
#[kani::unwind(9)]
fn q_boxed_exec() {
    queue_spec!(boxed::FnOnceQueue<Log>, true, false);
}
// @verif prop=C17,C18 tier=quick timeout=1200 mem=20 unwind=9 restrict_vtable=1 leakcheck=1
// @enc queue::boxed::FnOnceQueue::{new,push,is_empty} + Vec drop
// @sym as q_flat_exec
// @bound the same 3-closure script, dropped un-run
// @assume -Z restrict-vtable
#[kani::proof]
#[kani::unwind(9)]
fn q_boxed_drop() {
    queue_spec!(boxed::FnOnceQueue<Log>, false, false);
}

// @verif prop=C17,C16,C01 tier=off timeout=1500 mem=24 unwind=9 restrict_vtable=1 leakcheck=1 unwindset=fn:FnOnceQueue::<.*>::execute$:2,fn:FnOnceQueue<.*Drop>::drop$:2,drain_for_each.*\.0$:5
// @enc as q_flat_exec, plus the chained-buffer closure of expand_storage
// @sym as q_flat_exec; a 1000-byte payload forces one growth (1 KiB -> 2 KiB) with the old buffer chained
// @bound 5 closures, one buffer growth, executed twice then dropped; recursion bounded at one nested queue
// @assume -Z restrict-vtable
#[kani::proof]
#[kani::unwind(9)]
fn q_flat_growth_exec() {
    queue_spec!(Q<Log>, true, true);
}
// @verif prop=C17,C16,C01 tier=off timeout=1500 mem=24 unwind=9 restrict_vtable=1 leakcheck=1 unwindset=fn:FnOnceQueue::<.*>::execute$:2,fn:FnOnceQueue<.*Drop>::drop$:2,drain_for_each.*\.0$:5
// @enc as q_flat_growth_exec (drop path)
// @sym as q_flat_growth_exec
// @bound 5 closures, one buffer growth, dropped un-run
// @assume -Z restrict-vtable
#[kani::proof]
#[kani::unwind(9)]
fn q_flat_growth_drop() {
    queue_spec!(Q<Log>, false, true);
}


// Single-record queue-level harnesses: vtable extraction, fat-pointer reconstruction, call-by-ptr::read and
// drop_in_place for ONE record.  Records are independent (positions are the hvec push/drain step above), so
// this plus the storage-layer induction covers queues of any length; multi-record scripts are the thorough tier.
macro_rules! one_record {
    ($run:expr) => {{
        unsafe { DROPS = [0; 8] };
        let a: A32x4 = kani::any();
        let mut q: Q<Log> = Q::new();
        let t = Tok(1);
        q.push(move |s: &mut Log| {
            s.rec(3, a.0[0] ^ a.0[3]);
            s.rec(4, a.0[1].wrapping_add(a.0[2]));
            drop(t);
        });
        assert!(!q.is_empty());
        let mut l = Log::new();
        if $run {
            q.execute(&mut l);
            assert!(q.is_empty() && l.n == 2 && l.ids[0] == 3 && l.vals[0] == (a.0[0] ^ a.0[3]) && l.vals[1] == a.0[1].wrapping_add(a.0[2]),
                    "C01/C17: closure did not run exactly once with its captured data intact");
        }
        drop(q);
        assert!(l.n == if $run { 2 } else { 0 }, "C01: closure ran on drop / ran twice");
        assert!(drops(1) == 1, "C16/C17: captured value not dropped exactly once");
        kani::cover!(true, "script completed");
    }};
}
// @verif prop=C17,C16,C01 tier=quick timeout=1200 mem=20 unwind=9 restrict_vtable=1 leakcheck=1 unwindset=fn:FnOnceQueue::<.*>::execute$:1,fn:FnOnceQueue<.*Drop>::drop$:1,drain_for_each.*\.0$:3
// @enc queue::flat::FnOnceQueue::{new,push,push_aux,execute,is_empty,drop,drain_for_each,expand_storage} hvec::* CallItem::{call,drop}
// @sym 32-aligned 32-byte payload (all bytes)
// @bound one record (32-aligned capture + drop token): push, execute, drop
// @assume -Z restrict-vtable
#[kani::proof]
#[kani::unwind(9)]
fn q_flat1_exec() {
    one_record!(true);
}
// @verif prop=C17,C16,C01 tier=quick timeout=1200 mem=20 unwind=9 restrict_vtable=1 leakcheck=1 unwindset=fn:FnOnceQueue::<.*>::execute$:1,fn:FnOnceQueue<.*Drop>::drop$:1,drain_for_each.*\.0$:3
// @enc as q_flat1_exec (drop path)
// @sym as q_flat1_exec
// @bound one record: push, drop un-run
// @assume -Z restrict-vtable
#[kani::proof]
#[kani::unwind(9)]
fn q_flat1_drop() {
    one_record!(false);
}

// Two records across one buffer growth: the first record stays in the old 1 KiB buffer, which is chained into the
// new one as its first item.
macro_rules! two_records_growth {
    ($run:expr) => {{
        unsafe { DROPS = [0; 8] };
        let v: u64 = kani::any();
        let mut q: Q<Log> = Q::new();
        let t1 = Tok(1);
        q.push(move |s: &mut Log| {
            s.rec(2, v);
            drop(t1);
        });
        let mut payload = [0u8; 1016];
        payload[0] = v as u8;
        payload[1015] = (v >> 8) as u8;
        let t2 = Tok(2);
        q.push(move |s: &mut Log| {
            s.rec(4, payload[0] as u64 + ((payload[1015] as u64) << 8));
            drop(t2);
        });
        assert!(q.storage.cap() == 2048, "growth expected");
        let mut l = Log::new();
        if $run {
            q.execute(&mut l);
            assert!(q.is_empty() && l.n == 2 && l.ids[0] == 2 && l.vals[0] == v && l.ids[1] == 4, "C01/C17: order or data wrong across the buffer growth");
            assert!(l.vals[1] == (v as u8) as u64 + ((((v >> 8) as u8) as u64) << 8));
        }
        drop(q);
        assert!(l.n == if $run { 2 } else { 0 }, "C01: closure ran on drop / ran twice");
        assert!(drops(1) == 1 && drops(2) == 1, "C16/C17: a captured value (in the chained old buffer or the new one) was not dropped exactly once");
        kani::cover!(true, "script completed");
    }};
}
// @verif prop=C17,C16,C01,C05 tier=off timeout=1500 mem=24 unwind=9 restrict_vtable=1 leakcheck=1 unwindset=fn:FnOnceQueue::<.*>::execute$:2,fn:FnOnceQueue<.*Drop>::drop$:2,drain_for_each.*\.0$:3
// @enc queue::flat::FnOnceQueue::{push,push_aux,expand_storage,execute,drop,drain_for_each} (chained-buffer closure) hvec::*
// @sym payload word
// @bound 2 records, one growth 1 KiB -> 2 KiB; execute then drop
// @assume -Z restrict-vtable
#[kani::proof]
#[kani::unwind(9)]
fn q_flat_grow2_exec() {
    two_records_growth!(true);
}
// @verif prop=C17,C16,C01,C05 tier=off timeout=1800 mem=50 unwind=9 restrict_vtable=1 leakcheck=1 unwindset=fn:FnOnceQueue::<.*>::execute$:2,fn:FnOnceQueue<.*Drop>::drop$:2,drain_for_each.*\.0$:3
// @enc as q_flat_grow2_exec (drop path through the chained buffer)
// @sym payload word
// @bound 2 records, one growth; dropped un-run
// @assume -Z restrict-vtable
#[kani::proof]
#[kani::unwind(9)]
fn q_flat_grow2_drop() {
    two_records_growth!(false);
}

// (disabled, tier=off: both variants exhaust 24 GB in propositional reduction)
// The chained-buffer path with a SMALL old buffer (64 bytes, constructed): record 1 sits in the old buffer, record 2
// does not fit, so expand_storage chains the old buffer into a new 1 KiB one.  Dropping (or executing) the queue must
// reach record 1 through the chain closure.
macro_rules! chain_small {
    ($run:expr) => {{
        unsafe { DROPS = [0; 8] };
        let v: u64 = kani::any();
        let mut q: Q<Log> = Q { storage: HVec::with_size(64), phantomdata: PhantomData };
        let t1 = Tok(1);
        q.push(move |s: &mut Log| {
            s.rec(2, v);
            drop(t1);
        });
        assert!(q.storage.cap() == 64 && q.storage.len() == 24);
        let payload = [v; 6]; // 8 + 48 + 8 bytes needed: does not fit in the remaining 40
        let t2 = Tok(2);
        q.push(move |s: &mut Log| {
            s.rec(4, payload[0] ^ payload[5]);
            drop(t2);
        });
        assert!(q.storage.cap() == 1024, "growth expected");
        let mut l = Log::new();
        if $run {
            q.execute(&mut l);
            assert!(q.is_empty() && l.n == 2 && l.ids[0] == 2 && l.vals[0] == v && l.ids[1] == 4 && l.vals[1] == 0, "C01/C17: order or data wrong across the buffer growth");
        }
        drop(q);
        assert!(l.n == if $run { 2 } else { 0 }, "C01: closure ran on drop / ran twice");
        assert!(drops(2) == 1, "C16/C17: captured value in the new buffer not dropped exactly once");
        assert!(drops(1) == 1, "C16/C17/C05: captured value in the chained old buffer not dropped exactly once");
        kani::cover!(true, "script completed");
    }};
}
// @verif prop=C17,C16,C01,C05 tier=off timeout=500 mem=24 unwind=9 restrict_vtable=1 leakcheck=1 unwindset=fn:FnOnceQueue::<.*>::execute$:2,fn:FnOnceQueue<.*Drop>::drop$:2,drain_for_each.*\.0$:3
// @enc queue::flat::FnOnceQueue::{push,push_aux,expand_storage,drop,drain_for_each} (chained-buffer closure: drop path) hvec::*
// @sym payload word
// @bound 2 records; old buffer 64 bytes (constructed), new buffer 1 KiB; queue dropped un-run
// @assume -Z restrict-vtable
#[kani::proof]
#[kani::unwind(9)]
fn q_flat_chain_drop() {
    chain_small!(false);
}
// @verif prop=C17,C16,C01 tier=off timeout=1800 mem=24 unwind=9 restrict_vtable=1 leakcheck=1 unwindset=fn:FnOnceQueue::<.*>::execute$:2,fn:FnOnceQueue<.*Drop>::drop$:2,drain_for_each.*\.0$:3
// @enc as q_flat_chain_drop (execute path through the chained buffer)
// @sym payload word
// @bound 2 records; old buffer 64 bytes, new buffer 1 KiB; executed then dropped
// @assume -Z restrict-vtable
#[kani::proof]
#[kani::unwind(9)]
fn q_flat_chain_exec() {
    chain_small!(true);
}

#[cfg(uazu_replay_hvec)]
include!(env!("UAZU_STAKKER_REPLAY_FILE"));
