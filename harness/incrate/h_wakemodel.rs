// C11 step 2: interleaving of the two thread programs extracted (and re-checked on every run) by waker.rs:
//   waking thread  (w_set_equiv):  old=fetch_or(leaf,bit) ; if old==0 { old=fetch_or(summary,1<<leaf) ; if old==0 {
//                                  old=fetch_or(top,1<<slot) ; if old==0 { callback } } }
//   collecting thread (w_drain_equiv + WakeHandlers::wake_list): t=swap(top,0); for slot in bits(t) ascending {
//                                  for bitmap in bitmaps[slot] in Vec order { s=swap(summary,0); for leaf in bits(s)
//                                  ascending { l=swap(leaf,0); for b in bits(l) { run handler } } } }
// Pure integer state; the solver chooses which thread performs its next atomic operation at every step, so every
// sequentially-consistent interleaving at atomic-operation granularity inside the bound is in one query.
// (All accesses are RMWs on single words; with the orderings asserted in step 1/1b -- set >= Release, drain >=
// Acquire -- per-location RMW atomicity is all the no-lost-wake argument uses; see DESIGN §4 C11.)
//
// The main thread answers the poll-waker callback the way an I/O poller does: the callback raises an event flag;
// the main thread consumes the flag and THEN calls poll_wake() (two separate steps).
//
// @file crate=incrate replay_cfg=uazu_replay_wakemodel

const NW: usize = 3; // waker threads
const NB: usize = 2; // bitmaps

#[derive(Copy, Clone)]
struct Cfg {
    bm: [usize; NW],   // bitmap of waker i
    leaf: [u8; NW],    // leaf word inside the bitmap (0/1)
    bit: [u8; NW],     // bit inside the leaf (0..2)
    slot: [u8; NB],    // top-level slot (wake_index) of each bitmap (0/1); equal => both in the same Vec, order 0,1
    active: [bool; NW],
}

struct St {
    top: u8,
    sum: [u8; NB],
    leaf: [[u8; 2]; NB],
    flag: bool,       // poll event pending (raised by callbacks)
    callbacks: u8,
    // wakers
    wpc: [u8; NW],    // 0 leaf, 1 summary, 2 top, 3 callback, 4 returned
    began_at: [u8; NW],   // number of collections started when the wake began
    served: [bool; NW],   // handler ran in a collection that started after the wake began ... (see below)
    // collector
    cpc: u8,          // 0 idle, 1 flag consumed (about to swap top), 2 at summary, 3 at leaf
    t_rem: u8,
    s_rem: u8,
    cbm: usize,
    cleaf: u8,
    started: u8,      // collections started so far
    cur_start_seq: u8,
}

fn tz(x: u8) -> u8 {
    x.trailing_zeros() as u8
}

impl St {
    fn new() -> Self {
        St { top: 0, sum: [0; NB], leaf: [[0; 2]; NB], flag: false, callbacks: 0, wpc: [0; NW], began_at: [0; NW], served: [false; NW],
             cpc: 0, t_rem: 0, s_rem: 0, cbm: 0, cleaf: 0, started: 0, cur_start_seq: 0 }
    }
    fn waker_step(&mut self, c: &Cfg, i: usize) {
        let b = c.bm[i];
        match self.wpc[i] {
            0 => {
                let l = c.leaf[i] as usize;
                let old = self.leaf[b][l];
                self.leaf[b][l] = old | (1 << c.bit[i]);
                self.began_at[i] = self.started;
                self.served[i] = false;
                self.wpc[i] = if old == 0 { 1 } else { 4 };
            }
            1 => {
                let old = self.sum[b];
                self.sum[b] = old | (1 << c.leaf[i]);
                self.wpc[i] = if old == 0 { 2 } else { 4 };
            }
            2 => {
                let old = self.top;
                self.top = old | (1 << c.slot[b]);
                self.wpc[i] = if old == 0 { 3 } else { 4 };
            }
            _ => {
                self.flag = true;
                if self.callbacks < 200 {
                    self.callbacks += 1;
                }
                self.wpc[i] = 4;
            }
        }
    }
    // position the collector on its next atomic operation
    fn seek(&mut self, c: &Cfg) {
        // continue with the next bitmap of the current slot, then the next slot
        let mut guard = 0;
        while guard < 4 {
            if self.t_rem == 0 {
                self.cpc = 0;
                return;
            }
            let slot = tz(self.t_rem);
            while self.cbm < NB {
                if c.slot[self.cbm] == slot {
                    self.cpc = 2;
                    return;
                }
                self.cbm += 1;
            }
            self.t_rem &= self.t_rem - 1;
            self.cbm = 0;
            guard += 1;
        }
        self.cpc = 0;
    }
    fn collector_step(&mut self, c: &Cfg) {
        match self.cpc {
            0 => {
                // consume the poll event (or a spurious poll_wake call)
                self.flag = false;
                self.cpc = 1;
            }
            1 => {
                self.t_rem = self.top;
                self.top = 0;
                self.started += 1;
                self.cur_start_seq = self.started;
                self.cbm = 0;
                self.seek(c);
            }
            2 => {
                self.s_rem = self.sum[self.cbm];
                self.sum[self.cbm] = 0;
                if self.s_rem != 0 {
                    self.cleaf = tz(self.s_rem);
                    self.cpc = 3;
                } else {
                    self.cbm += 1;
                    self.seek(c);
                }
            }
            _ => {
                let l = self.leaf[self.cbm][self.cleaf as usize];
                self.leaf[self.cbm][self.cleaf as usize] = 0;
                // run the handlers of the bits found
                let mut i = 0;
                while i < NW {
                    if c.active[i] && c.bm[i] == self.cbm && c.leaf[i] == self.cleaf && (l >> c.bit[i]) & 1 == 1 && self.wpc[i] != 0 {
                        // the bit is there, so this wake's fetch_or already happened: the handler runs after the wake began
                        self.served[i] = true;
                    }
                    i += 1;
                }
                self.s_rem &= self.s_rem - 1;
                if self.s_rem != 0 {
                    self.cleaf = tz(self.s_rem);
                } else {
                    self.cbm += 1;
                    self.seek(c);
                }
            }
        }
    }
    fn words_clear(&self) -> bool {
        self.top == 0 && self.sum[0] == 0 && self.sum[1] == 0 && self.leaf[0][0] == 0 && self.leaf[0][1] == 0 && self.leaf[1][0] == 0 && self.leaf[1][1] == 0
    }
}

fn any_cfg(nw: usize) -> Cfg {
    let mut c = Cfg { bm: [0; NW], leaf: [0; NW], bit: [0; NW], slot: [0; NB], active: [false; NW] };
    let mut i = 0;
    while i < NW {
        c.active[i] = i < nw;
        c.bm[i] = kani::any();
        c.leaf[i] = kani::any();
        c.bit[i] = kani::any();
        kani::assume(c.bm[i] < NB && c.leaf[i] < 2 && c.bit[i] < 3);
        i += 1;
    }
    c.slot[0] = kani::any();
    c.slot[1] = kani::any();
    kani::assume(c.slot[0] < 2 && c.slot[1] < 2);
    c
}

// Run `steps` scheduler steps; `max_coll` bounds the number of poll_wake calls the main thread may start
// (callback-triggered or spurious).  Executions that are not finished inside the bound are discarded.
fn interleave(nw: usize, steps: usize, max_spurious: u8) {
    let c = any_cfg(nw);
    let mut s = St::new();
    let mut spurious: u8 = 0;
    let mut k = 0;
    while k < steps {
        let who: u8 = kani::any();
        kani::assume(who <= NW as u8);
        if (who as usize) < NW {
            let i = who as usize;
            if c.active[i] && s.wpc[i] < 4 {
                s.waker_step(&c, i);
            }
        } else {
            // main thread: continue a collection, or start one if there is a poll event (or spuriously)
            if s.cpc != 0 {
                s.collector_step(&c);
            } else if s.flag {
                s.collector_step(&c);
            } else if spurious < max_spurious && kani::any() {
                spurious += 1;
                s.collector_step(&c);
            }
        }
        // invariant at every point: a completed wake that has not been served yet is still "armed":
        // its bit is set, and some wake that will raise (or has raised) the poll event is in flight, or the event is
        // pending, or a collection is under way -- checked in its consequence at quiescence below.
        k += 1;
    }
    // quiescence: every waker returned, no poll event pending, collector idle
    let mut done = true;
    let mut i = 0;
    while i < NW {
        if c.active[i] && s.wpc[i] != 4 {
            done = false;
        }
        i += 1;
    }
    kani::assume(done && !s.flag && s.cpc == 0);
    i = 0;
    while i < NW {
        if c.active[i] {
            assert!(s.served[i], "C11: a wake() returned but its handler was never run by a poll_wake() made in response (lost wake-up)");
        }
        i += 1;
    }
    assert!(s.words_clear(), "C11: a wake bit is stranded in the bitmap with no poll event pending");
    kani::cover!(s.started >= 2, "two collections");
    kani::cover!(s.callbacks >= 2, "two poll-waker callbacks");
    kani::cover!(c.bm[0] != c.bm[1] && c.slot[0] == c.slot[1], "two bitmaps sharing a top-level slot");
    kani::cover!(c.bm[0] == c.bm[1] && c.leaf[0] == c.leaf[1] && c.bit[0] != c.bit[1], "two wakers in the same leaf word");
    kani::cover!(s.started > s.callbacks, "spurious collection");
}

// @verif prop=C11,C12 tier=quick timeout=1800 mem=16 unwind=30 unwindset=interleave.*\.0$:25
// @enc (no repository code: interleaves the automata whose equality with BitMap::set / BitMap::drain / wake_list is established by w_set_equiv, w_drain_equiv, w_wake_list_equiv on every run)
// @sym which thread moves at each of 24 steps; target (bitmap, leaf, bit) of each waker; top-level slot of each bitmap; whether the main thread makes a spurious poll_wake
// @bound 2 waking threads (one wake each) + main thread; 2 bitmaps x 2 leaves x 3 bits; 24 atomic steps; <= 1 spurious collection; unfinished executions discarded
// @assume sequential consistency at atomic-operation granularity (justified by the RMW-only protocol and the asserted orderings); poll event modelled as a flag consumed before poll_wake starts
#[kani::proof]
#[kani::unwind(30)]
fn wm_two_wakers() {
    interleave(2, 24, 1);
}

// @verif prop=C11 tier=thorough timeout=3400 mem=24 unwind=44 unwindset=interleave.*\.0$:41
// @enc as wm_two_wakers
// @sym as wm_two_wakers with 3 waking threads and 40 steps
// @bound 3 waking threads; 40 atomic steps; <= 1 spurious collection
// @assume as wm_two_wakers
#[kani::proof]
#[kani::unwind(44)]
fn wm_three_wakers() {
    interleave(3, 40, 1);
}

#[cfg(uazu_replay_wakemodel)]
include!(env!("UAZU_STAKKER_REPLAY_FILE"));
