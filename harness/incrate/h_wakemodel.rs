// C11 step 2: interleaving of the two thread programs extracted (and re-checked on every run) by waker.rs:
//   waking thread  (w_set_equiv):  old=fetch_or(leaf,bit) ; if old==0 { old=fetch_or(summary,1<<leaf) ; if old==0 {
//                                  old=fetch_or(top,1<<slot) ; if old==0 { callback } } }
//   collecting thread (w_drain_equiv + WakeHandlers::wake_list): t=swap(top,0); for slot in bits(t) ascending {
//                                  for bitmap in bitmaps[slot] in Vec order { s=swap(summary,0); for leaf in bits(s)
//                                  ascending { l=swap(leaf,0); for b in bits(l) { run handler } } } }
// Pure integer state; the solver chooses which thread performs its next atomic operation at every step, so every
// sequentially-consistent interleaving at atomic-operation granularity inside the bound is in one query.
// (All accesses are RMWs on single words; with the orderings asserted in step 1/1b -- set >= Release, drain >=
// Acquire -- per-location RMW atomicity is all the no-lost-wake argument uses; see DESIGN §4 C11.)
//
// The main thread answers the poll-waker callback the way an I/O poller does: the callback raises an event flag;
// the main thread consumes the flag and THEN calls poll_wake() (two separate steps).
//
// @file crate=incrate replay_cfg=uazu_replay_wakemodel

const NW: usize = 3; // waker threads
const NB: usize = 2; // bitmaps

#[derive(Copy, Clone)]
struct Cfg {
    bm: [usize; NW],   // bitmap of waker i
    leaf: [u8; NW],    // leaf word inside the bitmap (0/1)
    bit: [u8; NW],     // bit inside the leaf (0..2)
    slot: [u8; NB],    // top-level slot (wake_index) of each bitmap (0/1); equal => both in the same Vec, order 0,1
    active: [bool; NW],
}

struct St {
    top: u8,
    sum: [u8; NB],
    leaf: [[u8; 2]; NB],
    flag: bool,       // poll event pending (raised by callbacks)
    callbacks: u8,
    // wakers
    wpc: [u8; NW],    // 0 leaf, 1 summary, 2 top, 3 callback, 4 returned
    began_at: [u8; NW],   // number of collections started when the wake began
    served: [bool; NW],   // handler ran in a collection that started after the wake began ... (see below)
    // collector
    cpc: u8,          // 0 idle, 1 flag consumed (about to swap top), 2 at summary, 3 at leaf
    t_rem: u8,
    s_rem: u8,
    cbm: usize,
    cleaf: u8,
    started: u8,      // collections started so far
    cur_start_seq: u8,
}

fn tz(x: u8) -> u8 {
    x.trailing_zeros() as u8
}

impl St {
    fn new() -> Self {
        St { top: 0, sum: [0; NB], leaf: [[0; 2]; NB], flag: false, callbacks: 0, wpc: [0; NW], began_at: [0; NW], served: [false; NW],
             cpc: 0, t_rem: 0, s_rem: 0, cbm: 0, cleaf: 0, started: 0, cur_start_seq: 0 }
    }
    fn waker_step(&mut self, c: &Cfg, i: usize) {
        let b = c.bm[i];
        match self.wpc[i] {
            0 => {
                let l = c.leaf[i] as usize;
                let old = self.leaf[b][l];
                self.leaf[b][l] = old | (1 << c.bit[i]);
                self.began_at[i] = self.started;
                self.served[i] = false;
                self.wpc[i] = if old == 0 { 1 } else { 4 };
            }
            1 => {
                let old = self.sum[b];
                self.sum[b] = old | (1 << c.leaf[i]);
                self.wpc[i] = if old == 0 { 2 } else { 4 };
            }
            2 => {
                let old = self.top;
                self.top = old | (1 << c.slot[b]);
                self.wpc[i] = if old == 0 { 3 } else { 4 };
            }
            _ => {
                self.flag = true;
                if self.callbacks < 200 {
                    self.callbacks += 1;
                }
                self.wpc[i] = 4;
            }
        }
    }
    // position the collector on its next atomic operation
    fn seek(&mut self, c: &Cfg) {
        // continue with the next bitmap of the current slot, then the next slot
        let mut guard = 0;
        while guard < 4 {
            if self.t_rem == 0 {
                self.cpc = 0;
                return;
            }
            let slot = tz(self.t_rem);
            while self.cbm < NB {
                if c.slot[self.cbm] == slot {
                    self.cpc = 2;
                    return;
                }
                self.cbm += 1;
            }
            self.t_rem &= self.t_rem - 1;
            self.cbm = 0;
            guard += 1;
        }
        self.cpc = 0;
    }
    fn collector_step(&mut self, c: &Cfg) {
        match self.cpc {
            0 => {
                // consume the poll event (or a spurious poll_wake call)
                self.flag = false;
                self.cpc = 1;
            }
            1 => {
                self.t_rem = self.top;
                self.top = 0;
                self.started += 1;
                self.cur_start_seq = self.started;
                self.cbm = 0;
                self.seek(c);
            }
            2 => {
                self.s_rem = self.sum[self.cbm];
                self.sum[self.cbm] = 0;
                if self.s_rem != 0 {
                    self.cleaf = tz(self.s_rem);
                    self.cpc = 3;
                } else {
                    self.cbm += 1;
                    self.seek(c);
                }
            }
            _ => {
                let l = self.leaf[self.cbm][self.cleaf as usize];
                self.leaf[self.cbm][self.cleaf as usize] = 0;
                // run the handlers of the bits found
                let mut i = 0;
                while i < NW {
                    if c.active[i] && c.bm[i] == self.cbm && c.leaf[i] == self.cleaf && (l >> c.bit[i]) & 1 == 1 && self.wpc[i] != 0 {
                        // the bit is there, so this wake's fetch_or already happened: the handler runs after the wake began
                        self.served[i] = true;
                    }
                    i += 1;
                }
                self.s_rem &= self.s_rem - 1;
                if self.s_rem != 0 {
                    self.cleaf = tz(self.s_rem);
                } else {
                    self.cbm += 1;
                    self.seek(c);
                }
            }
        }
    }
    fn words_clear(&self) -> bool {
        self.top == 0 && self.sum[0] == 0 && self.sum[1] == 0 && self.leaf[0][0] == 0 && self.leaf[0][1] == 0 && self.leaf[1][0] == 0 && self.leaf[1][1] == 0
    }
}

fn any_cfg(nw: usize) -> Cfg {
    let mut c = Cfg { bm: [0; NW], leaf: [0; NW], bit: [0; NW], slot: [0; NB], active: [false; NW] };
    let mut i = 0;
    while i < NW {
        c.active[i] = i < nw;
        c.bm[i] = kani::any();
        c.leaf[i] = kani::any();
        c.bit[i] = kani::any();
        kani::assume(c.bm[i] < NB && c.leaf[i] < 2 && c.bit[i] < 3);
        i += 1;
    }
    c.slot[0] = kani::any();
    c.slot[1] = kani::any();
    kani::assume(c.slot[0] < 2 && c.slot[1] < 2);
    c
}

// ------------------------------------------------------------------------------------------
// Inductive proof over the interleaving model (unbounded schedule length):
//   INV  I0  collector registers consistent with its program counter
//        I1  a non-empty leaf word is "armed": its bit is in the bitmap summary, or a waker that found the leaf empty is
//            about to set it, or the collector has already taken the summary and will still swap this leaf
//        I2  a non-empty summary word is armed the same way one level up
//        I3  a non-empty top word is armed: poll event pending, or a waker is about to raise it, or the main thread
//            has consumed the event and is about to swap the top word
//   base: INV holds initially;  step: ANY single atomic step of ANY thread from ANY state satisfying INV re-establishes
//   INV;  conclusion: INV and quiescence (all wakes returned, no poll event pending, collector idle) imply that every
//   word is zero -- and a bit is only ever cleared by the collector's leaf swap, which runs the handler: no wake-up
//   is stranded, and each handler ran after its wake began.
// ------------------------------------------------------------------------------------------
impl St {
    fn regs_ok(&self, c: &Cfg) -> bool {
        let cur_slot_ok = self.t_rem != 0 && self.cbm < NB && c.slot[if self.cbm < NB { self.cbm } else { 0 }] == tz(self.t_rem);
        match self.cpc {
            0 | 1 => true,
            2 => cur_slot_ok,
            3 => cur_slot_ok && self.s_rem != 0 && self.cleaf == tz(self.s_rem) && self.cleaf < 2,
            _ => false,
        }
    }
    // the collector will still swap bitmap b's summary in the current collection
    fn will_visit_sum(&self, c: &Cfg, b: usize) -> bool {
        if self.cpc != 2 && self.cpc != 3 {
            return false;
        }
        let cur = tz(self.t_rem);
        let sb = c.slot[b];
        let in_later_slot = sb != cur && (self.t_rem >> sb) & 1 == 1;
        let later_in_cur_slot = sb == cur && b > self.cbm;
        let now = self.cpc == 2 && self.cbm == b;
        now || in_later_slot || later_in_cur_slot
    }
    fn will_swap_leaf(&self, b: usize, l: u8) -> bool {
        self.cpc == 3 && self.cbm == b && (self.s_rem >> l) & 1 == 1
    }
    fn inv(&self, c: &Cfg) -> bool {
        if !self.regs_ok(c) {
            return false;
        }
        let mut ok = true;
        let mut b = 0;
        while b < NB {
            let mut l = 0u8;
            while l < 2 {
                if self.leaf[b][l as usize] != 0 {
                    let mut armed = (self.sum[b] >> l) & 1 == 1 || self.will_swap_leaf(b, l);
                    let mut i = 0;
                    while i < NW {
                        armed |= c.active[i] && c.bm[i] == b && c.leaf[i] == l && self.wpc[i] == 1;
                        i += 1;
                    }
                    ok &= armed;
                }
                l += 1;
            }
            if self.sum[b] != 0 {
                let mut armed = (self.top >> c.slot[b]) & 1 == 1 || self.will_visit_sum(c, b);
                let mut i = 0;
                while i < NW {
                    armed |= c.active[i] && c.bm[i] == b && self.wpc[i] == 2;
                    i += 1;
                }
                ok &= armed;
            }
            b += 1;
        }
        if self.top != 0 {
            let mut armed = self.flag || self.cpc == 1;
            let mut i = 0;
            while i < NW {
                armed |= c.active[i] && self.wpc[i] == 3;
                i += 1;
            }
            ok &= armed;
        }
        ok
    }
}

fn any_state() -> St {
    let mut s = St::new();
    s.top = kani::any();
    s.sum = [kani::any(), kani::any()];
    s.leaf = [[kani::any(), kani::any()], [kani::any(), kani::any()]];
    kani::assume(s.top < 4 && s.sum[0] < 4 && s.sum[1] < 4);
    kani::assume(s.leaf[0][0] < 8 && s.leaf[0][1] < 8 && s.leaf[1][0] < 8 && s.leaf[1][1] < 8);
    s.flag = kani::any();
    let mut i = 0;
    while i < NW {
        s.wpc[i] = kani::any();
        kani::assume(s.wpc[i] <= 4);
        i += 1;
    }
    s.cpc = kani::any();
    s.t_rem = kani::any();
    s.s_rem = kani::any();
    s.cbm = kani::any();
    s.cleaf = kani::any();
    kani::assume(s.cpc <= 3 && s.t_rem < 4 && s.s_rem < 4 && s.cbm <= NB && s.cleaf < 2);
    s
}

// @verif prop=C11,C12 tier=quick timeout=1200 mem=12 unwind=6
// @enc (no repository code: the automata whose equality with BitMap::set / BitMap::drain / the wake_list nesting is established by w_set_equiv and w_drain_equiv on every run)
// @sym the whole model state (all words, every waker's position, the collector's position and registers), the configuration (3 wakers with arbitrary targets in 2 bitmaps x 2 leaves x 3 bits, arbitrary slots), and which thread moves
// @bound ONE atomic step from an arbitrary state satisfying INV (inductive: schedules of any length); 3 waking threads, 2 bitmaps
// @assume sequential consistency at atomic-operation granularity (RMW-only protocol + the orderings asserted in step 1/1b); poll event = flag consumed before poll_wake starts
#[kani::proof]
#[kani::unwind(6)]
fn wm_inductive_step() {
    let c = any_cfg(NW);
    let mut s = any_state();
    kani::assume(s.inv(&c));
    let who: u8 = kani::any();
    kani::assume(who <= NW as u8);
    if (who as usize) < NW {
        let i = who as usize;
        kani::assume(s.wpc[i] < 4);
        s.waker_step(&c, i);
    } else {
        // the main thread may continue a collection, answer a poll event, or call poll_wake spuriously
        s.collector_step(&c);
    }
    assert!(s.inv(&c), "C11: the wake protocol can reach a state where a set bit is not covered by any pending notification (lost wake-up)");
    kani::cover!(who as usize == NW && s.cpc == 3, "collector reaches a leaf");
    kani::cover!((who as usize) < NW && s.wpc[0] == 3, "waker about to call back");
}

// @verif prop=C11,C12 tier=quick timeout=1200 mem=8 unwind=6
// @enc (model only) base case and conclusion of the induction
// @sym configuration; for the conclusion: any state satisfying INV
// @bound none (state predicate)
// @assume as wm_inductive_step
#[kani::proof]
#[kani::unwind(6)]
fn wm_base_and_conclusion() {
    let c = any_cfg(NW);
    assert!(St::new().inv(&c), "INV must hold initially");
    let s = any_state();
    kani::assume(s.inv(&c));
    let mut quiescent = !s.flag && s.cpc == 0;
    let mut i = 0;
    while i < NW {
        quiescent &= s.wpc[i] == 0 || s.wpc[i] == 4;
        i += 1;
    }
    if quiescent {
        assert!(s.words_clear(), "C11: at quiescence a wake bit is stranded with no poll event pending");
    }
    kani::cover!(quiescent, "quiescent state");
    kani::cover!(!quiescent && s.top != 0, "busy state");
}

#[cfg(uazu_replay_wakemodel)]
include!(env!("UAZU_STAKKER_REPLAY_FILE"));
