// harness module for flat (see DESIGN.md)
