// C04 / C03: the packed count-and-state word (src/rc/count.rs), inductive (any word)
use crate::actor::State;
use crate::rc::count::CountAndState;

const INC: usize = 4;
const MASK: usize = !3usize;

fn raw(c: CountAndState) -> usize {
    unsafe { std::mem::transmute::<CountAndState, usize>(c) }
}
fn mk(v: usize) -> CountAndState {
    unsafe { std::mem::transmute::<usize, CountAndState>(v) }
}

// @verif prop=C04,C16,C03 tier=quick timeout=1200 mem=4
// @enc CountAndState::inc CountAndState::dec
// @sym the whole packed word (any usize): inductive step, any history
// @bound none on values; one inc and one dec from an arbitrary word
#[kani::proof]
fn c04_count_inc_dec_step() {
    let w: usize = kani::any();
    let c = mk(w);
    let count = w >> 2;
    let state = w & 3;
    // inc: +1 unless saturated; state untouched
    let i = raw(c.inc());
    assert!(i & 3 == state);
    if w >= MASK {
        assert!(i == w); // locked at maximum
    } else {
        assert!(i >> 2 == count + 1);
    }
    // dec: -1 unless zero or saturated; reports zero iff count was 1; state untouched
    let (d, zero) = c.dec();
    let d = raw(d);
    assert!(d & 3 == state);
    if count == 0 || w >= MASK {
        assert!(d == w && !zero);
    } else {
        assert!(d >> 2 == count - 1);
        assert!(zero == (count == 1));
    }
    kani::cover!(zero, "dec reaches zero");
    kani::cover!(w >= MASK, "saturated word");
}

// @verif prop=C03,C04 tier=quick timeout=1200 mem=4
// @enc CountAndState::set_state CountAndState::is_prep CountAndState::is_zombie CountAndState::new
// @sym the whole packed word (any usize) x target state
// @bound none on values; one step
#[kani::proof]
fn c03_count_state_step() {
    let w: usize = kani::any();
    let c = mk(w);
    let which: u8 = kani::any();
    kani::assume(which < 3);
    let st = match which {
        0 => State::Prep,
        1 => State::Ready,
        _ => State::Zombie,
    };
    let n = c.set_state(st);
    assert!(raw(n) >> 2 == w >> 2); // count untouched
    assert!(raw(n) & 3 == which as usize);
    assert!(n.is_prep() == (which == 0));
    assert!(n.is_zombie() == (which == 2));
    // inc/dec never change what is_prep / is_zombie report
    assert!(n.inc().is_zombie() == n.is_zombie() && n.inc().is_prep() == n.is_prep());
    assert!(n.dec().0.is_zombie() == n.is_zombie() && n.dec().0.is_prep() == n.is_prep());
    assert!(raw(CountAndState::new()) == 0);
    kani::cover!(which == 2 && w >> 2 > 5, "zombie with references");
}
