// Harnesses for src/timers/mod.rs (child module: sees Time, WrapTime, TimerKey, VarSlot, rounded_75point ...)
// Properties: C07 C08 C09 C10 C19.   See DESIGN.md §4 (timers block).
//
// @file crate=incrate features=no-unsafe-queue replay_cfg=uazu_replay_timers restrict_vtable=1
use super::*;
use crate::uazu_stakker_verif::support::*;


// ------------------------------------------------------------------------------------------
// Layer A: arithmetic lemmas (full bit-width unless stated)
// ------------------------------------------------------------------------------------------

// Instants relative to t0 are handled as (secs, nanos) pairs and compared lexicographically:
// no multiplications in the queries.
type Off = (u64, u32);

// offset represented by a tick value (the sub-second field may be 61036 = 1 s + 13824 ns)
fn time_off(t: Time) -> Off {
    let sub = ((t.0 & 0xFFFF) as u32) << 14;
    if sub >= 1_000_000_000 {
        ((t.0 >> 16) + 1, sub - 1_000_000_000)
    } else {
        (t.0 >> 16, sub)
    }
}
fn off_add_ns(x: Off, d: u32) -> Off {
    let n = x.1 + d; // d <= 2^15, x.1 < 2*10^9
    if n >= 1_000_000_000 {
        (x.0 + 1, n - 1_000_000_000)
    } else {
        (x.0, n)
    }
}
const STEP: u32 = 1 << 14;

// @verif prop=C07,C08,C09 tier=quick timeout=600 mem=6
// @enc Time::new_floor Time::new_ceil Time::instant Time::inc
// @sym instant = t0 + (secs < 2^40, nanos < 10^9), all values; t0 fixed base instant
// @bound secs < 2^40 (about 34000 years); single conversion
#[kani::proof]
fn a_time_rounding() {
    let t0 = base_instant();
    let s: u64 = kani::any();
    let n: u32 = kani::any();
    kani::assume(s < (1 << 40));
    kani::assume(n < 1_000_000_000);
    let x = at(t0, s, n);
    let f = Time::new_floor(x, t0);
    let c = Time::new_ceil(x, t0);
    // floor: never after x, less than one step before it; sub-second field stays below 61036
    assert!(time_off(f) <= (s, n) && (s, n) < off_add_ns(time_off(f), STEP));
    assert!((f.0 & 0xFFFF) <= 61035 && (f.0 >> 16) == s);
    // ceil: never before x (no early expiry), less than one step after it
    assert!(time_off(c) >= (s, n) && time_off(c) < off_add_ns((s, n), STEP));
    assert!((c.0 & 0xFFFF) <= 61036 && (c.0 >> 16) == s);
    assert!(f <= c && c.0 - f.0 <= 1);
    // instant(): the exact instant of the tick
    assert!(f.instant(t0) <= x);
    assert!(c.instant(t0) >= x);
    let d = c.instant(t0).saturating_duration_since(t0);
    assert!((d.as_secs(), d.subsec_nanos()) == time_off(c));
    kani::cover!((c.0 & 0xFFFF) == 61036, "ceil lands on the 61036 sub-second value");
    kani::cover!(f == c, "exactly on a tick");
}

// @verif prop=C07,C08 tier=quick timeout=600 mem=6
// @enc Time::new_floor Time::new_ceil
// @sym an instant up to 1000 s BEFORE t0
// @bound one conversion
#[kani::proof]
fn a_time_before_t0() {
    let t0 = base_instant();
    let before: u64 = kani::any();
    let n: u32 = kani::any();
    kani::assume(before <= 1000 && n < 1_000_000_000 && (before, n) != (0, 0));
    let early = t0 - std::time::Duration::new(before, n);
    assert!(Time::new_ceil(early, t0).0 == 0 && Time::new_floor(early, t0).0 == 0);
    kani::cover!(before == 0, "sub-second before t0");
}

// @verif prop=C07,C08,C19 tier=quick timeout=600 mem=6
// @enc Time::new_floor Time::new_ceil
// @sym two instants x <= y (secs < 2^40, any nanos)
// @bound secs < 2^40
#[kani::proof]
fn a_time_monotone() {
    let t0 = base_instant();
    let (s1, n1, s2, n2): (u64, u32, u64, u32) = (kani::any(), kani::any(), kani::any(), kani::any());
    kani::assume(s1 < (1 << 40) && s2 < (1 << 40) && n1 < 1_000_000_000 && n2 < 1_000_000_000);
    kani::assume((s1, n1) <= (s2, n2));
    let (x, y) = (at(t0, s1, n1), at(t0, s2, n2));
    let (fx, cx, fy, cy) = (Time::new_floor(x, t0), Time::new_ceil(x, t0), Time::new_floor(y, t0), Time::new_ceil(y, t0));
    assert!(fx <= fy);
    assert!(cx <= cy);
    // a full step past the expiry always satisfies the firing condition floor(now) >= ceil(expiry) (on time)
    if (s2, n2) >= off_add_ns((s1, n1), STEP) {
        assert!(fy >= cx);
        assert!(fy >= fx.inc());
    }
    // two deadlines at least two steps apart never share a tick, nor swap
    if (s2, n2) >= off_add_ns((s1, n1), 2 * STEP) {
        assert!(cx < cy);
    }
    kani::cover!(s1 != s2 && n2 < n1, "different seconds");
}

// @verif prop=C07 tier=quick timeout=600 mem=6
// @enc Time::new_floor Time::new_ceil
// @sym expiry x and current time y, any order (secs < 2^40, any nanos)
// @bound secs < 2^40
#[kani::proof]
fn a_time_no_early() {
    let t0 = base_instant();
    let (s1, n1, s2, n2): (u64, u32, u64, u32) = (kani::any(), kani::any(), kani::any(), kani::any());
    kani::assume(s1 < (1 << 40) && s2 < (1 << 40) && n1 < 1_000_000_000 && n2 < 1_000_000_000);
    let (x, y) = (at(t0, s1, n1), at(t0, s2, n2));
    // the firing condition floor(now) >= ceil(expiry) implies now >= expiry
    if Time::new_floor(y, t0) >= Time::new_ceil(x, t0) {
        assert!((s2, n2) >= (s1, n1));
    }
    kani::cover!(Time::new_floor(y, t0) == Time::new_ceil(x, t0), "fires exactly at the tick");
}

// @verif prop=C07,C08,C09 tier=quick timeout=600 mem=6
// @enc Time::wt WrapTime::time WrapTime::cmp TimerKey::cmp
// @sym base, t: any u64 ticks with base <= t < base + 2^32; a, b any ticks within 2^31 of each other
// @bound full 64-bit tick values (below 2^63)
#[kani::proof]
fn a_wraptime() {
    let base: u64 = kani::any();
    let t: u64 = kani::any();
    kani::assume(base < (1 << 62) && t >= base && t - base < (1 << 32));
    assert!(Time(t).wt().time(Time(base)) == Time(t));
    // cyclic order agrees with the linear order while the distance is below 2^31
    let a: u64 = kani::any();
    let b: u64 = kani::any();
    kani::assume(a < (1 << 62) && b < (1 << 62));
    let d = if a > b { a - b } else { b - a };
    kani::assume(d < (1 << 31));
    assert!(Time(a).wt().cmp(&Time(b).wt()) == a.cmp(&b));
    let (sa, sb): (u32, u32) = (kani::any(), kani::any());
    let ka = TimerKey::new(Time(a).wt(), sa);
    let kb = TimerKey::new(Time(b).wt(), sb);
    assert!(ka.cmp(&kb) == (a, sa).cmp(&(b, sb)));
    assert!(ka.cmp(&kb) == kb.cmp(&ka).reverse());
    kani::cover!((a as u32) < (b as u32) && a > b, "comparison across the 32-bit wrap");
}

// @verif prop=C07,C08,C09 tier=quick timeout=900 mem=8
// @enc rounded_75point
// @sym t0 any tick below 2^50 with valid sub-second field; t1 = t0 + gap, gap up to 0x7FFF s + 1 s
// @bound t0 < 2^50 ticks, 0 <= t1 - t0 <= 0x8000_0000 ticks
#[kani::proof]
fn a_rounded_75point() {
    let t0: u64 = kani::any();
    let t1: u64 = kani::any();
    kani::assume(t0 < (1 << 50) && (t0 & 0xFFFF) <= 61036);
    kani::assume(t1 >= t0 && t1 - t0 <= 0x8000_0000 && (t1 & 0xFFFF) <= 61036);
    let r = rounded_75point(Time(t0), Time(t1)).0;
    assert!(r <= t1, "never later than the target (would fire late)");
    assert!(r >= t0, "never before the start");
    if t1 > t0 {
        assert!(r > t0, "strictly after the start when the target is (progress)");
    }
    assert!((r & 0xFFFF) <= 61036, "sub-second field stays valid");
    // at least 3/4 of the way: the remaining gap shrinks geometrically (bounded number of re-queues)
    assert!(t1 - r <= (t1 - t0) / 4 + 1);
    if t1 - t0 < 0x8000 {
        assert!(r == t1);
    }
    kani::cover!(t1 - t0 >= 0x8000 && r < t1, "intermediate point");
    kani::cover!(t1 - t0 >= 0x8000 && (r & 0xFFFF) == 0 && (t1 & 0xFFFF) != 0, "rounded up to a whole second");
}

// @verif prop=C10 tier=quick timeout=600 mem=6 unwind=3
// @enc Timers::free_slot Timers::alloc_slot
// @sym an arbitrary constructed VarSlot (any generation, Max or Min, any expiry) in a 1-slot table: inductive over history
// @bound one free + one re-allocation; table of 1 slot
#[kani::proof]
fn a_slot_generation_step() {
    let t0 = base_instant();
    let mut t: Timers<Ctx> = Timers::new(t0);
    let g: u32 = kani::any();
    kani::assume(g != 0); // invariant: generation 0 is never stored (established by alloc_slot's initial 1)
    let vt = VarTimer { expiry: Time(kani::any()), curr: Time(kani::any()) };
    let item = if kani::any() { VarItem::Max(vt) } else { VarItem::Min(vt) };
    t.var.push(VarSlot { gnn: g, item });
    t.free_slot(0);
    let g2 = t.var[0].gnn;
    assert!(g2 != 0, "generation 0 is reserved for Default keys");
    assert!(g2 != g, "a freed slot never keeps its generation");
    assert!(t.var_free == Some(0));
    // the old key and the Default key answer false on the free slot ...
    assert!(!t.max_is_active(MaxTimerKey { slot: 0, gnn: g }));
    assert!(!t.min_is_active(MinTimerKey { slot: 0, gnn: g }));
    assert!(!t.max_is_active(MaxTimerKey::default()) && !t.min_is_active(MinTimerKey::default()));
    // ... and re-allocation hands out exactly the new generation
    let vt2 = VarTimer { expiry: Time(kani::any()), curr: Time(kani::any()) };
    let (slot, g3) = t.alloc_slot(VarItem::Max(vt2));
    assert!(slot == 0 && g3 == g2 && t.var_free.is_none());
    kani::cover!(g == u32::MAX, "generation wraps");
}

// ------------------------------------------------------------------------------------------
// Layer B/C: histories on the real Timers<S>
// ------------------------------------------------------------------------------------------

// Context handed to timer callbacks.  Callbacks are one closure type (`cb`), so that `dyn`
// calls have a single target.
pub(crate) struct Ctx {
    in_run: bool,         // set by the harness around advance(): callbacks legal only then
    outside: bool,        // a callback ran outside advance()
    cnt: [u8; 3],         // how often timer i fired
    order: [u8; 4],       // ids in firing order
    n: usize,
}

impl Ctx {
    fn new() -> Self {
        Self { in_run: false, outside: false, cnt: [0; 3], order: [0xFF; 4], n: 0 }
    }
    fn fire(&mut self, id: u8) {
        if !self.in_run {
            self.outside = true;
        }
        if (id as usize) < 3 && self.cnt[id as usize] < 200 {
            self.cnt[id as usize] += 1;
        }
        if self.n < 4 {
            self.order[self.n] = id;
            self.n += 1;
        }
    }
}

fn cb(id: u8) -> BoxedFnOnce<Ctx> {
    Box::new(move |c: &mut Ctx| c.fire(id))
}

// Stub for FnOnceQueue::push_box under Kani: the timer queue is only a sink here, so the
// callback is invoked at once against the harness context (queue FIFO behaviour is C01/C17).
// In native replay (no stubs) the real queue is used and executed right after advance().
static mut CTX_PTR: *mut Ctx = std::ptr::null_mut();
#[allow(dead_code)]
fn push_box_now<S: 'static>(_q: &mut FnOnceQueue<S>, value: BoxedFnOnce<S>) {
    unsafe { value(&mut *(CTX_PTR as *mut S)) }
}

struct World {
    t: Timers<Ctx>,
    q: FnOnceQueue<Ctx>,
    c: Box<Ctx>,
    t0: Instant,
    cur: Off, // greatest instant given to advance so far (offset from t0)
}

impl World {
    fn new() -> Self {
        let t0 = base_instant();
        let mut c = Box::new(Ctx::new());
        unsafe { CTX_PTR = &mut *c as *mut Ctx };
        Self { t: Timers::new(t0), q: FnOnceQueue::new(), c, t0, cur: (0, 0) }
    }
    // A runtime that has been up for an arbitrary time `up` with no timer pending: the state every
    // history reaches by running to `up` with an empty timer set (constructed, not executed).
    fn new_at(up: Off) -> Self {
        let mut w = Self::new();
        w.cur = up;
        w.t.now = Time::new_floor(at(w.t0, up.0, up.1), w.t0);
        w
    }
    fn inst(&self, x: Off) -> Instant {
        at(self.t0, x.0, x.1)
    }
    // what Stakker::run does with the timers: advance only if time moved forward
    fn advance(&mut self, x: Off) {
        if x > self.cur {
            self.cur = x;
            self.c.in_run = true;
            self.t.advance(at(self.t0, x.0, x.1), &mut self.q);
            self.q.execute(&mut self.c);
            self.c.in_run = false;
        }
    }
    fn next_expiry_off(&self) -> Option<Off> {
        self.t.next_expiry().map(|i| {
            let d = i.saturating_duration_since(self.t0);
            (d.as_secs(), d.subsec_nanos())
        })
    }
}

// any offset in [lo_secs, hi_secs] x [0, 10^9)
fn any_off(lo: u64, hi: u64) -> Off {
    let s: u64 = kani::any();
    let n: u32 = kani::any();
    kani::assume(s >= lo && s <= hi && n < 1_000_000_000);
    (s, n)
}

// Reference model of one timer
#[derive(Copy, Clone, PartialEq, Eq)]
enum Kind {
    Fixed,
    Max,
    Min,
}
struct Model {
    kind: Kind,
    pending: bool,
    eff: Off,    // effective expiry
    set_at: Off, // runtime's time when the effective expiry was last set
    fired: u8,
}
impl Model {
    // "its effective expiry, or the time it was set if that is later"
    fn deadline(&self) -> Off {
        if self.eff > self.set_at { self.eff } else { self.set_at }
    }
}

#[derive(Copy, Clone)]
enum Key {
    F(FixedTimerKey),
    Mx(MaxTimerKey),
    Mn(MinTimerKey),
}

fn add_timer(w: &mut World, kind: Kind, e: Off, id: u8) -> (Key, Model) {
    let i = w.inst(e);
    let key = match kind {
        Kind::Fixed => Key::F(w.t.add(i, cb(id))),
        Kind::Max => Key::Mx(w.t.add_max(i, cb(id))),
        Kind::Min => Key::Mn(w.t.add_min(i, cb(id))),
    };
    (key, Model { kind, pending: true, eff: e, set_at: w.cur, fired: 0 })
}

// the checks that must hold after every operation on a single-timer world (C07 C08 C09 C10)
fn check_state(w: &World, m: &Model, key: &Key, id: u8) {
    assert!(!w.c.outside, "C07: callback ran outside advance()");
    let fired = w.c.cnt[id as usize];
    assert!(fired <= 1, "C08: fired more than once");
    assert!(fired == m.fired, "C07/C08: fired state differs from model");
    match key {
        Key::Mx(k) => assert!(w.t.max_is_active(*k) == m.pending, "C10: max active"),
        Key::Mn(k) => assert!(w.t.min_is_active(*k) == m.pending, "C10: min active"),
        Key::F(_) => (),
    }
    let ne = w.next_expiry_off();
    assert!(ne.is_some() == m.pending, "C09: next_expiry is Some exactly when a timer is pending");
    if let Some(ne) = ne {
        assert!(ne > w.cur, "C09: next_expiry strictly after current time");
        assert!(ne <= off_add_ns(m.deadline(), STEP), "C09: next_expiry oversleeps the deadline");
    }
}

fn op_advance(w: &mut World, m: &mut Model, id: u8, n: Off) {
    let before = w.c.cnt[id as usize];
    w.advance(n);
    let after = w.c.cnt[id as usize];
    if after > before {
        assert!(m.pending, "C07/C10: a non-pending timer fired");
        assert!(w.cur >= m.eff, "C07: fired before effective expiry");
        m.pending = false;
        m.fired += 1;
    } else if m.pending {
        assert!(w.cur < off_add_ns(m.deadline(), STEP), "C08: timer not fired one step past its deadline");
    }
}

fn op_update(w: &mut World, m: &mut Model, key: &Key, e: Off) {
    let i = w.inst(e);
    match key {
        Key::Mx(k) => {
            let r = w.t.mod_max(*k, i);
            assert!(r == m.pending, "C10: mod_max result");
            if m.pending && e > m.eff {
                m.eff = e;
                m.set_at = w.cur;
            }
        }
        Key::Mn(k) => {
            let r = w.t.mod_min(*k, i);
            assert!(r == m.pending, "C10: mod_min result");
            if m.pending && e < m.eff {
                m.eff = e;
                m.set_at = w.cur;
            }
        }
        Key::F(_) => (),
    }
}

fn op_delete(w: &mut World, m: &mut Model, key: &Key) {
    let r = match key {
        Key::Mx(k) => w.t.del_max(*k),
        Key::Mn(k) => w.t.del_min(*k),
        Key::F(k) => w.t.del(*k),
    };
    assert!(r == m.pending, "C10: delete result");
    m.pending = false;
}

// One symbolic operation from {advance, update, delete}
fn step(w: &mut World, m: &mut Model, key: &Key, id: u8, lo: u64, hi: u64) {
    let op: u8 = kani::any();
    kani::assume(op < 3);
    let x = any_off(lo, hi);
    match op {
        0 => op_advance(w, m, id, x),
        1 => op_update(w, m, key, x),
        _ => op_delete(w, m, key),
    }
    check_state(w, m, key, id);
}

// ---- single-timer histories -------------------------------------------------------------
// Window: the runtime has been up for `up` in [0, UP] s; every instant used afterwards lies in
// [up.secs - BACK, up.secs + AHEAD] s (any nanos).

fn window(up: Off, back: u64, ahead: u64) -> (u64, u64) {
    (if up.0 > back { up.0 - back } else { 0 }, up.0 + ahead)
}

// add; advance; advance   (fire exactly once / on time / never early; next_expiry after each)
fn hist_add_adv_adv(kind: Kind, up_max: u64, back: u64, ahead: u64) {
    let up = any_off(0, up_max);
    let (lo, hi) = window(up, back, ahead);
    let mut w = World::new_at(up);
    let (key, mut m) = add_timer(&mut w, kind, any_off(lo, hi), 0);
    check_state(&w, &m, &key, 0);
    op_advance(&mut w, &mut m, 0, any_off(lo, hi));
    check_state(&w, &m, &key, 0);
    kani::cover!(m.fired == 1, "fired in first advance");
    kani::cover!(m.pending, "pending after first advance");
    op_advance(&mut w, &mut m, 0, any_off(lo, hi));
    check_state(&w, &m, &key, 0);
    kani::cover!(m.fired == 1 && w.c.order[0] == 0, "fired");
    kani::cover!(m.pending, "still pending at the end");
    std::mem::forget(w);
}

// add; update; advance; [stale-key ops]   (Max/Min semantics, keys)
fn hist_add_upd_adv(kind: Kind, up_max: u64, back: u64, ahead: u64) {
    let up = any_off(0, up_max);
    let (lo, hi) = window(up, back, ahead);
    let mut w = World::new_at(up);
    let (key, mut m) = add_timer(&mut w, kind, any_off(lo, hi), 0);
    op_update(&mut w, &mut m, &key, any_off(lo, hi));
    check_state(&w, &m, &key, 0);
    kani::cover!(m.set_at == w.cur && m.eff != m.set_at, "update took effect");
    op_advance(&mut w, &mut m, 0, any_off(lo, hi));
    check_state(&w, &m, &key, 0);
    kani::cover!(m.fired == 1, "fired");
    kani::cover!(m.pending, "still pending");
    // every key operation after the end of the timer is false and inert
    if !m.pending {
        op_update(&mut w, &mut m, &key, any_off(lo, hi));
        op_delete(&mut w, &mut m, &key);
        check_state(&w, &m, &key, 0);
    }
    std::mem::forget(w);
}

// add; advance; update; advance   (update after a re-queue; the F1 shape)
fn hist_add_adv_upd_adv(kind: Kind, up_max: u64, back: u64, ahead: u64) {
    let up = any_off(0, up_max);
    let (lo, hi) = window(up, back, ahead);
    let mut w = World::new_at(up);
    let (key, mut m) = add_timer(&mut w, kind, any_off(lo, hi), 0);
    op_advance(&mut w, &mut m, 0, any_off(lo, hi));
    check_state(&w, &m, &key, 0);
    op_update(&mut w, &mut m, &key, any_off(lo, hi));
    check_state(&w, &m, &key, 0);
    kani::cover!(m.pending && m.set_at == w.cur && m.set_at != up, "update took effect after an advance");
    op_advance(&mut w, &mut m, 0, any_off(lo, hi));
    check_state(&w, &m, &key, 0);
    kani::cover!(m.fired == 1, "fired");
    std::mem::forget(w);
}

// add; advance; delete; advance   (a deleted timer never fires, leaves nothing behind)
fn hist_add_adv_del_adv(kind: Kind, up_max: u64, back: u64, ahead: u64) {
    let up = any_off(0, up_max);
    let (lo, hi) = window(up, back, ahead);
    let mut w = World::new_at(up);
    let (key, mut m) = add_timer(&mut w, kind, any_off(lo, hi), 0);
    op_advance(&mut w, &mut m, 0, any_off(lo, hi));
    check_state(&w, &m, &key, 0);
    let was = m.pending;
    op_delete(&mut w, &mut m, &key);
    check_state(&w, &m, &key, 0);
    kani::cover!(was, "deleted while pending");
    op_advance(&mut w, &mut m, 0, any_off(lo, hi));
    check_state(&w, &m, &key, 0);
    op_delete(&mut w, &mut m, &key);
    check_state(&w, &m, &key, 0);
    std::mem::forget(w);
}

// next_expiry progress: running at next_expiry() fires the timer or moves next_expiry strictly forward
fn hist_progress(kind: Kind, up_max: u64, back: u64, ahead: u64) {
    let up = any_off(0, up_max);
    let (lo, hi) = window(up, back, ahead);
    let mut w = World::new_at(up);
    let (key, mut m) = add_timer(&mut w, kind, any_off(lo, hi), 0);
    op_update(&mut w, &mut m, &key, any_off(lo, hi));
    let ne1 = w.next_expiry_off().unwrap();
    op_advance(&mut w, &mut m, 0, ne1);
    check_state(&w, &m, &key, 0);
    assert!(w.cur == ne1, "C09: next_expiry is after the current time, so the run advances");
    if m.pending {
        let ne2 = w.next_expiry_off().unwrap();
        assert!(ne2 > ne1, "C09: no progress when running at next_expiry()");
        // Min timers approach geometrically: the remaining gap to the deadline shrinks to <= 1/4 (+ rounding)
    } else {
        assert!(m.fired == 1);
    }
    kani::cover!(m.fired == 1, "fired at next_expiry");
    kani::cover!(m.pending, "re-queued");
    std::mem::forget(w);
}

macro_rules! timer_harness {
    ($name:ident, $body:ident, $kind:expr, $up:expr, $back:expr, $ahead:expr) => {
        #[kani::proof]
        #[kani::unwind(5)]
        #[kani::stub(crate::queue::FnOnceQueue::push_box, push_box_now)]
        fn $name() {
            $body($kind, $up, $back, $ahead);
        }
    };
}

// ---- quick tier: short window (one advance step), uptime up to 40000 s so `now` crosses 32767 s ----
// Common annotations for the b_* family:
//   @stub  FnOnceQueue::push_box -> invoke the callback at once against the harness context
//   @assume BTreeMap = /verif/harness/model/vmap.rs (capacity 3, total-order precondition asserted)

// @verif prop=C07,C08,C09,C10 tier=quick timeout=600 mem=12 unwind=5 unwindset=::advance\.1$:2,::advance\.0$:3,::add\.0$:2,::add\.1$:1
// @enc Timers::add Timers::add_max Timers::del Timers::advance Timers::next_expiry Time::* WrapTime::* TimerKey::cmp
// @sym uptime up in [0,40000 s]; expiry, two run instants: any instant in [up-100 s, up+30000 s] (any ns)
// @bound 1 fixed timer; add, advance, advance; each advance <= 30100 s (single 0x7FFF s step); map model capacity 3
// @stub FnOnceQueue::push_box -> callback invoked at once (queue is a sink here; FIFO is C01/C17)
// @assume BTreeMap modelled by harness/model/vmap.rs; initial state = empty timer set at arbitrary uptime (constructed)
timer_harness!(b_fixed_add_adv_adv, hist_add_adv_adv, Kind::Fixed, 40000, 100, 30000);

#[cfg(uazu_replay_timers)]
include!(env!("UAZU_STAKKER_REPLAY_FILE"));

