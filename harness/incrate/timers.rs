// Harnesses for src/timers/mod.rs (child module: sees Time, WrapTime, TimerKey, VarSlot, rounded_75point ...)
// Properties: C07 C08 C09 C10 C19.   See DESIGN.md §4 (timers block).
//
// @file crate=incrate features=no-unsafe-queue replay_cfg=uazu_replay_timers restrict_vtable=1
use super::*;
use crate::uazu_stakker_verif::support::*;


// ------------------------------------------------------------------------------------------
// Layer A: arithmetic lemmas (full bit-width unless stated)
// ------------------------------------------------------------------------------------------

// Instants relative to t0 are handled as (secs, nanos) pairs and compared lexicographically:
// no multiplications in the queries.
type Off = (u64, u32);

// offset represented by a tick value (the sub-second field may be 61036 = 1 s + 13824 ns)
fn time_off(t: Time) -> Off {
    let sub = ((t.0 & 0xFFFF) as u32) << 14;
    if sub >= 1_000_000_000 {
        ((t.0 >> 16) + 1, sub - 1_000_000_000)
    } else {
        (t.0 >> 16, sub)
    }
}
fn off_add_ns(x: Off, d: u32) -> Off {
    let n = x.1 + d; // d <= 2^15, x.1 < 2*10^9
    if n >= 1_000_000_000 {
        (x.0 + 1, n - 1_000_000_000)
    } else {
        (x.0, n)
    }
}
const STEP: u32 = 1 << 14;

// @verif prop=C07,C08,C09 tier=quick timeout=1200 mem=6
// @enc Time::new_floor Time::new_ceil Time::instant Time::inc
// @sym instant = t0 + (secs < 2^40, nanos < 10^9), all values; t0 fixed base instant
// @bound secs < 2^40 (about 34000 years); single conversion
#[kani::proof]
fn a_time_rounding() {
    let t0 = base_instant();
    let s: u64 = kani::any();
    let n: u32 = kani::any();
    kani::assume(s < (1 << 40));
    kani::assume(n < 1_000_000_000);
    let x = at(t0, s, n);
    let f = Time::new_floor(x, t0);
    let c = Time::new_ceil(x, t0);
    // floor: never after x, less than one step before it; sub-second field stays below 61036
    assert!(time_off(f) <= (s, n) && (s, n) < off_add_ns(time_off(f), STEP));
    assert!((f.0 & 0xFFFF) <= 61035 && (f.0 >> 16) == s);
    // ceil: never before x (no early expiry), less than one step after it
    assert!(time_off(c) >= (s, n) && time_off(c) < off_add_ns((s, n), STEP));
    assert!((c.0 & 0xFFFF) <= 61036 && (c.0 >> 16) == s);
    assert!(f <= c && c.0 - f.0 <= 1);
    // instant(): the exact instant of the tick
    assert!(f.instant(t0) <= x);
    assert!(c.instant(t0) >= x);
    let d = c.instant(t0).saturating_duration_since(t0);
    assert!((d.as_secs(), d.subsec_nanos()) == time_off(c));
    kani::cover!((c.0 & 0xFFFF) == 61036, "ceil lands on the 61036 sub-second value");
    kani::cover!(f == c, "exactly on a tick");
}

// @verif prop=C07,C08 tier=quick timeout=1200 mem=6
// @enc Time::new_floor Time::new_ceil
// @sym an instant up to 1000 s BEFORE t0
// @bound one conversion
#[kani::proof]
fn a_time_before_t0() {
    let t0 = base_instant();
    let before: u64 = kani::any();
    let n: u32 = kani::any();
    kani::assume(before <= 1000 && n < 1_000_000_000 && (before, n) != (0, 0));
    let early = t0 - std::time::Duration::new(before, n);
    assert!(Time::new_ceil(early, t0).0 == 0 && Time::new_floor(early, t0).0 == 0);
    kani::cover!(before == 0, "sub-second before t0");
}

// @verif prop=C07,C08,C19 tier=quick timeout=1200 mem=6
// @enc Time::new_floor Time::new_ceil
// @sym two instants x <= y (secs < 2^40, any nanos)
// @bound secs < 2^40
#[kani::proof]
fn a_time_monotone() {
    let t0 = base_instant();
    let (s1, n1, s2, n2): (u64, u32, u64, u32) = (kani::any(), kani::any(), kani::any(), kani::any());
    kani::assume(s1 < (1 << 40) && s2 < (1 << 40) && n1 < 1_000_000_000 && n2 < 1_000_000_000);
    kani::assume((s1, n1) <= (s2, n2));
    let (x, y) = (at(t0, s1, n1), at(t0, s2, n2));
    let (fx, cx, fy, cy) = (Time::new_floor(x, t0), Time::new_ceil(x, t0), Time::new_floor(y, t0), Time::new_ceil(y, t0));
    assert!(fx <= fy);
    assert!(cx <= cy);
    // a full step past the expiry always satisfies the firing condition floor(now) >= ceil(expiry) (on time)
    if (s2, n2) >= off_add_ns((s1, n1), STEP) {
        assert!(fy >= cx);
        assert!(fy >= fx.inc());
    }
    // two deadlines at least two steps apart never share a tick, nor swap
    if (s2, n2) >= off_add_ns((s1, n1), 2 * STEP) {
        assert!(cx < cy);
    }
    kani::cover!(s1 != s2 && n2 < n1, "different seconds");
}

// @verif prop=C07 tier=quick timeout=1200 mem=6
// @enc Time::new_floor Time::new_ceil
// @sym expiry x and current time y, any order (secs < 2^40, any nanos)
// @bound secs < 2^40
#[kani::proof]
fn a_time_no_early() {
    let t0 = base_instant();
    let (s1, n1, s2, n2): (u64, u32, u64, u32) = (kani::any(), kani::any(), kani::any(), kani::any());
    kani::assume(s1 < (1 << 40) && s2 < (1 << 40) && n1 < 1_000_000_000 && n2 < 1_000_000_000);
    let (x, y) = (at(t0, s1, n1), at(t0, s2, n2));
    // the firing condition floor(now) >= ceil(expiry) implies now >= expiry
    if Time::new_floor(y, t0) >= Time::new_ceil(x, t0) {
        assert!((s2, n2) >= (s1, n1));
    }
    kani::cover!(Time::new_floor(y, t0) == Time::new_ceil(x, t0), "fires exactly at the tick");
}

// @verif prop=C07,C08,C09 tier=quick timeout=1200 mem=6
// @enc Time::wt WrapTime::time WrapTime::cmp TimerKey::cmp
// @sym base, t: any u64 ticks with base <= t < base + 2^32; a, b any ticks within 2^31 of each other
// @bound full 64-bit tick values (below 2^63)
#[kani::proof]
fn a_wraptime() {
    let base: u64 = kani::any();
    let t: u64 = kani::any();
    kani::assume(base < (1 << 62) && t >= base && t - base < (1 << 32));
    assert!(Time(t).wt().time(Time(base)) == Time(t));
    // cyclic order agrees with the linear order while the distance is below 2^31
    let a: u64 = kani::any();
    let b: u64 = kani::any();
    kani::assume(a < (1 << 62) && b < (1 << 62));
    let d = if a > b { a - b } else { b - a };
    kani::assume(d < (1 << 31));
    assert!(Time(a).wt().cmp(&Time(b).wt()) == a.cmp(&b));
    let (sa, sb): (u32, u32) = (kani::any(), kani::any());
    let ka = TimerKey::new(Time(a).wt(), sa);
    let kb = TimerKey::new(Time(b).wt(), sb);
    assert!(ka.cmp(&kb) == (a, sa).cmp(&(b, sb)));
    assert!(ka.cmp(&kb) == kb.cmp(&ka).reverse());
    kani::cover!((a as u32) < (b as u32) && a > b, "comparison across the 32-bit wrap");
}

// @verif prop=C07,C08,C09 tier=quick timeout=1200 mem=8
// @enc rounded_75point
// @sym t0 any tick below 2^50 with valid sub-second field; t1 = t0 + gap, gap up to 0x7FFF s + 1 s
// @bound t0 < 2^50 ticks, 0 <= t1 - t0 <= 0x8000_0000 ticks
#[kani::proof]
fn a_rounded_75point() {
    let t0: u64 = kani::any();
    let t1: u64 = kani::any();
    kani::assume(t0 < (1 << 50) && (t0 & 0xFFFF) <= 61036);
    kani::assume(t1 >= t0 && t1 - t0 <= 0x8000_0000 && (t1 & 0xFFFF) <= 61036);
    let r = rounded_75point(Time(t0), Time(t1)).0;
    assert!(r <= t1, "never later than the target (would fire late)");
    assert!(r >= t0, "never before the start");
    if t1 > t0 {
        assert!(r > t0, "strictly after the start when the target is (progress)");
    }
    assert!((r & 0xFFFF) <= 61036, "sub-second field stays valid");
    // at least 3/4 of the way: the remaining gap shrinks geometrically (bounded number of re-queues)
    assert!(t1 - r <= (t1 - t0) / 4 + 1);
    if t1 - t0 < 0x8000 {
        assert!(r == t1);
    }
    kani::cover!(t1 - t0 >= 0x8000 && r < t1, "intermediate point");
    kani::cover!(t1 - t0 >= 0x8000 && (r & 0xFFFF) == 0 && (t1 & 0xFFFF) != 0, "rounded up to a whole second");
}

// @verif prop=C10 tier=quick timeout=1200 mem=6 unwind=3
// @enc Timers::free_slot Timers::alloc_slot
// @sym an arbitrary constructed VarSlot (any generation, Max or Min, any expiry) in a 1-slot table: inductive over history
// @bound one free + one re-allocation; table of 1 slot
#[kani::proof]
fn a_slot_generation_step() {
    let t0 = base_instant();
    let mut t: Timers<Ctx> = Timers::new(t0);
    let g: u32 = kani::any();
    kani::assume(g != 0); // invariant: generation 0 is never stored (established by alloc_slot's initial 1)
    let vt = VarTimer { expiry: Time(kani::any()), curr: Time(kani::any()) };
    let item = if kani::any() { VarItem::Max(vt) } else { VarItem::Min(vt) };
    t.var.push(VarSlot { gnn: g, item });
    t.free_slot(0);
    let g2 = t.var[0].gnn;
    assert!(g2 != 0, "generation 0 is reserved for Default keys");
    assert!(g2 != g, "a freed slot never keeps its generation");
    assert!(t.var_free == Some(0));
    // the old key and the Default key answer false on the free slot ...
    assert!(!t.max_is_active(MaxTimerKey { slot: 0, gnn: g }));
    assert!(!t.min_is_active(MinTimerKey { slot: 0, gnn: g }));
    assert!(!t.max_is_active(MaxTimerKey::default()) && !t.min_is_active(MinTimerKey::default()));
    // ... and re-allocation hands out exactly the new generation
    let vt2 = VarTimer { expiry: Time(kani::any()), curr: Time(kani::any()) };
    let (slot, g3) = t.alloc_slot(VarItem::Max(vt2));
    assert!(slot == 0 && g3 == g2 && t.var_free.is_none());
    kani::cover!(g == u32::MAX, "generation wraps");
}

// ------------------------------------------------------------------------------------------
// Layer B/C: histories on the real Timers<S>
// ------------------------------------------------------------------------------------------

// Context handed to timer callbacks.  Callbacks are one closure type (`cb`), so that `dyn`
// calls have a single target.
pub(crate) struct Ctx {
    in_run: bool,         // set by the harness around advance(): callbacks legal only then
    outside: bool,        // a callback ran outside advance()
    cnt: [u8; 3],         // how often timer i fired
    order: [u8; 4],       // ids in firing order
    n: usize,
}

impl Ctx {
    fn new() -> Self {
        Self { in_run: false, outside: false, cnt: [0; 3], order: [0xFF; 4], n: 0 }
    }
    fn fire(&mut self, id: u8) {
        if !self.in_run {
            self.outside = true;
        }
        if (id as usize) < 3 && self.cnt[id as usize] < 200 {
            self.cnt[id as usize] += 1;
        }
        if self.n < 4 {
            self.order[self.n] = id;
            self.n += 1;
        }
    }
}

fn cb(id: u8) -> BoxedFnOnce<Ctx> {
    Box::new(move |c: &mut Ctx| c.fire(id))
}

// Stub for FnOnceQueue::push_box under Kani: the timer queue is only a sink here, so the
// callback is invoked at once against the harness context (queue FIFO behaviour is C01/C17).
// In native replay (no stubs) the real queue is used and executed right after advance().
static mut CTX_PTR: *mut Ctx = std::ptr::null_mut();
#[allow(dead_code)]
fn push_box_now<S: 'static>(_q: &mut FnOnceQueue<S>, value: BoxedFnOnce<S>) {
    unsafe { value(&mut *(CTX_PTR as *mut S)) }
}

struct World {
    t: Timers<Ctx>,
    q: FnOnceQueue<Ctx>,
    c: Box<Ctx>,
    t0: Instant,
    cur: Off, // greatest instant given to advance so far (offset from t0)
}

impl World {
    fn new() -> Self {
        let t0 = base_instant();
        let mut c = Box::new(Ctx::new());
        unsafe { CTX_PTR = &mut *c as *mut Ctx };
        Self { t: Timers::new(t0), q: FnOnceQueue::new(), c, t0, cur: (0, 0) }
    }
    // A runtime that has been up for an arbitrary time `up` with no timer pending: the state every
    // history reaches by running to `up` with an empty timer set (constructed, not executed).
    fn new_at(up: Off) -> Self {
        let mut w = Self::new();
        w.cur = up;
        w.t.now = Time::new_floor(at(w.t0, up.0, up.1), w.t0);
        w
    }
    fn inst(&self, x: Off) -> Instant {
        at(self.t0, x.0, x.1)
    }
    // what Stakker::run does with the timers: advance only if time moved forward
    fn advance(&mut self, x: Off) {
        if x > self.cur {
            self.cur = x;
            self.c.in_run = true;
            self.t.advance(at(self.t0, x.0, x.1), &mut self.q);
            self.q.execute(&mut self.c);
            self.c.in_run = false;
        }
    }
    fn next_expiry_off(&self) -> Option<Off> {
        self.t.next_expiry().map(|i| {
            let d = i.saturating_duration_since(self.t0);
            (d.as_secs(), d.subsec_nanos())
        })
    }
}

// any offset in [lo_secs, hi_secs] x [0, 10^9)
fn any_off(lo: u64, hi: u64) -> Off {
    let s: u64 = kani::any();
    let n: u32 = kani::any();
    kani::assume(s >= lo && s <= hi && n < 1_000_000_000);
    (s, n)
}

// Reference model of one timer
#[derive(Copy, Clone, PartialEq, Eq)]
enum Kind {
    Fixed,
    Max,
    Min,
}
struct Model {
    kind: Kind,
    pending: bool,
    eff: Off,    // effective expiry
    set_at: Off, // runtime's time when the effective expiry was last set
    fired: u8,
}
impl Model {
    // "its effective expiry, or the time it was set if that is later"
    fn deadline(&self) -> Off {
        if self.eff > self.set_at { self.eff } else { self.set_at }
    }
}

#[derive(Copy, Clone)]
enum Key {
    F(FixedTimerKey),
    Mx(MaxTimerKey),
    Mn(MinTimerKey),
}

fn add_timer(w: &mut World, kind: Kind, e: Off, id: u8) -> (Key, Model) {
    let i = w.inst(e);
    let key = match kind {
        Kind::Fixed => Key::F(w.t.add(i, cb(id))),
        Kind::Max => Key::Mx(w.t.add_max(i, cb(id))),
        Kind::Min => Key::Mn(w.t.add_min(i, cb(id))),
    };
    (key, Model { kind, pending: true, eff: e, set_at: w.cur, fired: 0 })
}

// the checks that must hold after every operation on a single-timer world (C07 C08 C09 C10)
fn check_state(w: &World, m: &Model, key: &Key, id: u8) {
    assert!(!w.c.outside, "C07: callback ran outside advance()");
    let fired = w.c.cnt[id as usize];
    assert!(fired <= 1, "C08: fired more than once");
    assert!(fired == m.fired, "C07/C08: fired state differs from model");
    match key {
        Key::Mx(k) => assert!(w.t.max_is_active(*k) == m.pending, "C10: max active"),
        Key::Mn(k) => assert!(w.t.min_is_active(*k) == m.pending, "C10: min active"),
        Key::F(_) => (),
    }
    let ne = w.next_expiry_off();
    assert!(ne.is_some() == m.pending, "C09: next_expiry is Some exactly when a timer is pending");
    if let Some(ne) = ne {
        assert!(ne > w.cur, "C09: next_expiry strictly after current time");
        assert!(ne <= off_add_ns(m.deadline(), STEP), "C09: next_expiry oversleeps the deadline");
    }
}

fn op_advance(w: &mut World, m: &mut Model, id: u8, n: Off) {
    let before = w.c.cnt[id as usize];
    w.advance(n);
    let after = w.c.cnt[id as usize];
    if after > before {
        assert!(m.pending, "C07/C10: a non-pending timer fired");
        assert!(w.cur >= m.eff, "C07: fired before effective expiry");
        m.pending = false;
        m.fired += 1;
    } else if m.pending {
        assert!(w.cur < off_add_ns(m.deadline(), STEP), "C08: timer not fired one step past its deadline");
    }
}

fn op_update(w: &mut World, m: &mut Model, key: &Key, e: Off) {
    let i = w.inst(e);
    match key {
        Key::Mx(k) => {
            let r = w.t.mod_max(*k, i);
            assert!(r == m.pending, "C10: mod_max result");
            if m.pending && e > m.eff {
                m.eff = e;
                m.set_at = w.cur;
            }
        }
        Key::Mn(k) => {
            let r = w.t.mod_min(*k, i);
            assert!(r == m.pending, "C10: mod_min result");
            if m.pending && e < m.eff {
                m.eff = e;
                m.set_at = w.cur;
            }
        }
        Key::F(_) => (),
    }
}

fn op_delete(w: &mut World, m: &mut Model, key: &Key) {
    let r = match key {
        Key::Mx(k) => w.t.del_max(*k),
        Key::Mn(k) => w.t.del_min(*k),
        Key::F(k) => w.t.del(*k),
    };
    assert!(r == m.pending, "C10: delete result");
    m.pending = false;
}

// One symbolic operation from {advance, update, delete}
fn step(w: &mut World, m: &mut Model, key: &Key, id: u8, lo: u64, hi: u64) {
    let op: u8 = kani::any();
    kani::assume(op < 3);
    let x = any_off(lo, hi);
    match op {
        0 => op_advance(w, m, id, x),
        1 => op_update(w, m, key, x),
        _ => op_delete(w, m, key),
    }
    check_state(w, m, key, id);
}

// ---- single-timer histories -------------------------------------------------------------
// Window: the runtime has been up for `up` in [0, UP] s; every instant used afterwards lies in
// [up.secs - BACK, up.secs + AHEAD] s (any nanos).

fn window(up: Off, back: u64, ahead: u64) -> (u64, u64) {
    (if up.0 > back { up.0 - back } else { 0 }, up.0 + ahead)
}

// add; advance; advance   (fire exactly once / on time / never early; next_expiry after each)
fn hist_add_adv_adv(kind: Kind, up_max: u64, back: u64, ahead: u64) {
    let up = any_off(0, up_max);
    let (lo, hi) = window(up, back, ahead);
    let mut w = World::new_at(up);
    let (key, mut m) = add_timer(&mut w, kind, any_off(lo, hi), 0);
    check_state(&w, &m, &key, 0);
    op_advance(&mut w, &mut m, 0, any_off(lo, hi));
    check_state(&w, &m, &key, 0);
    kani::cover!(m.fired == 1, "fired in first advance");
    kani::cover!(m.pending, "pending after first advance");
    op_advance(&mut w, &mut m, 0, any_off(lo, hi));
    check_state(&w, &m, &key, 0);
    kani::cover!(m.fired == 1 && w.c.order[0] == 0, "fired");
    kani::cover!(m.pending, "still pending at the end");
    std::mem::forget(w);
}

// add; update; advance; [stale-key ops]   (Max/Min semantics, keys)
fn hist_add_upd_adv(kind: Kind, up_max: u64, back: u64, ahead: u64) {
    let up = any_off(0, up_max);
    let (lo, hi) = window(up, back, ahead);
    let mut w = World::new_at(up);
    let (key, mut m) = add_timer(&mut w, kind, any_off(lo, hi), 0);
    op_update(&mut w, &mut m, &key, any_off(lo, hi));
    check_state(&w, &m, &key, 0);
    kani::cover!(m.set_at == w.cur && m.eff != m.set_at, "update took effect");
    op_advance(&mut w, &mut m, 0, any_off(lo, hi));
    check_state(&w, &m, &key, 0);
    kani::cover!(m.fired == 1, "fired");
    kani::cover!(m.pending, "still pending");
    // every key operation after the end of the timer is false and inert
    if !m.pending {
        op_update(&mut w, &mut m, &key, any_off(lo, hi));
        op_delete(&mut w, &mut m, &key);
        check_state(&w, &m, &key, 0);
    }
    std::mem::forget(w);
}

// add; advance; update; advance   (update after a re-queue; the F1 shape)
fn hist_add_adv_upd_adv(kind: Kind, up_max: u64, back: u64, ahead: u64) {
    let up = any_off(0, up_max);
    let (lo, hi) = window(up, back, ahead);
    let mut w = World::new_at(up);
    let (key, mut m) = add_timer(&mut w, kind, any_off(lo, hi), 0);
    op_advance(&mut w, &mut m, 0, any_off(lo, hi));
    check_state(&w, &m, &key, 0);
    op_update(&mut w, &mut m, &key, any_off(lo, hi));
    check_state(&w, &m, &key, 0);
    kani::cover!(m.pending && m.set_at == w.cur && m.set_at != up, "update took effect after an advance");
    op_advance(&mut w, &mut m, 0, any_off(lo, hi));
    check_state(&w, &m, &key, 0);
    kani::cover!(m.fired == 1, "fired");
    std::mem::forget(w);
}

// add; advance; delete; advance   (a deleted timer never fires, leaves nothing behind)
fn hist_add_adv_del_adv(kind: Kind, up_max: u64, back: u64, ahead: u64) {
    let up = any_off(0, up_max);
    let (lo, hi) = window(up, back, ahead);
    let mut w = World::new_at(up);
    let (key, mut m) = add_timer(&mut w, kind, any_off(lo, hi), 0);
    op_advance(&mut w, &mut m, 0, any_off(lo, hi));
    check_state(&w, &m, &key, 0);
    let was = m.pending;
    op_delete(&mut w, &mut m, &key);
    check_state(&w, &m, &key, 0);
    kani::cover!(was, "deleted while pending");
    op_advance(&mut w, &mut m, 0, any_off(lo, hi));
    check_state(&w, &m, &key, 0);
    op_delete(&mut w, &mut m, &key);
    check_state(&w, &m, &key, 0);
    std::mem::forget(w);
}

// next_expiry progress: running at next_expiry() fires the timer or moves next_expiry strictly forward
fn hist_progress(kind: Kind, up_max: u64, back: u64, ahead: u64) {
    let up = any_off(0, up_max);
    let (lo, hi) = window(up, back, ahead);
    let mut w = World::new_at(up);
    let (key, mut m) = add_timer(&mut w, kind, any_off(lo, hi), 0);
    op_update(&mut w, &mut m, &key, any_off(lo, hi));
    let ne1 = w.next_expiry_off().unwrap();
    op_advance(&mut w, &mut m, 0, ne1);
    check_state(&w, &m, &key, 0);
    assert!(w.cur == ne1, "C09: next_expiry is after the current time, so the run advances");
    if m.pending {
        let ne2 = w.next_expiry_off().unwrap();
        assert!(ne2 > ne1, "C09: no progress when running at next_expiry()");
        // Min timers approach geometrically: the remaining gap to the deadline shrinks to <= 1/4 (+ rounding)
    } else {
        assert!(m.fired == 1);
    }
    kani::cover!(m.fired == 1, "fired at next_expiry");
    kani::cover!(m.pending, "re-queued");
    std::mem::forget(w);
}

macro_rules! timer_harness {
    ($name:ident, $body:ident, $kind:expr, $up:expr, $back:expr, $ahead:expr) => {
        #[kani::proof]
        #[kani::unwind(5)]
        #[kani::stub(crate::queue::FnOnceQueue::push_box, push_box_now)]
        fn $name() {
            $body($kind, $up, $back, $ahead);
        }
    };
}

// ---- quick tier: short window (one advance step), uptime up to 40000 s so `now` crosses 32767 s ----
// Common annotations for the b_* family:
//   @stub  FnOnceQueue::push_box -> invoke the callback at once against the harness context
//   @assume BTreeMap = /verif/harness/model/vmap.rs (capacity 3, total-order precondition asserted)

// @verif prop=C07,C08,C09,C10 tier=thorough timeout=1800 mem=12 unwind=5 unwindset=::advance\.1$:2,::advance\.0$:3,::add\.0$:2,::add\.1$:1
// @enc Timers::add Timers::add_max Timers::del Timers::advance Timers::next_expiry Time::* WrapTime::* TimerKey::cmp
// @sym uptime up in [0,40000 s]; expiry, two run instants: any instant in [up-100 s, up+30000 s] (any ns)
// @bound 1 fixed timer; add, advance, advance; each advance <= 30100 s (single 0x7FFF s step); map model capacity 3
// @stub FnOnceQueue::push_box -> callback invoked at once (queue is a sink here; FIFO is C01/C17)
// @assume BTreeMap modelled by harness/model/vmap.rs; initial state = empty timer set at arbitrary uptime (constructed)
timer_harness!(b_fixed_add_adv_adv, hist_add_adv_adv, Kind::Fixed, 40000, 100, 30000);


// @verif prop=C07,C08,C09,C10 tier=thorough timeout=3000 mem=16 unwind=5 unwindset=::advance\.1$:2,::advance\.0$:3,::add\.0$:2,::add\.1$:1
// @enc Timers::{add_max,mod_max,del_max} Timers::advance Timers::next_expiry (real code end to end through a short history; cross-check of the inductive layer)
// @sym uptime in [0,40000 s]; every instant in [up-100 s, up+30000 s] (any ns)
// @bound 1 Max timer; history: add; update; advance; stale-key ops; each advance <= 30100 s; map model capacity 2
// @stub FnOnceQueue::push_box -> callback invoked at once
// @assume BTreeMap modelled by harness/model/vmap.rs; initial state = empty timer set at arbitrary uptime (constructed)
timer_harness!(b_max_add_upd_adv, hist_add_upd_adv, Kind::Max, 40000, 100, 30000);
// @verif prop=C07,C08,C09,C10 tier=thorough timeout=3000 mem=16 unwind=5 unwindset=::advance\.1$:2,::advance\.0$:3,::add\.0$:2,::add\.1$:1
// @enc Timers::{add_min,mod_min,del_min} Timers::advance Timers::next_expiry (real code end to end through a short history; cross-check of the inductive layer)
// @sym uptime in [0,40000 s]; every instant in [up-100 s, up+30000 s] (any ns)
// @bound 1 Min timer; history: add; update; advance; stale-key ops; each advance <= 30100 s; map model capacity 2
// @stub FnOnceQueue::push_box -> callback invoked at once
// @assume BTreeMap modelled by harness/model/vmap.rs; initial state = empty timer set at arbitrary uptime (constructed)
timer_harness!(b_min_add_upd_adv, hist_add_upd_adv, Kind::Min, 40000, 100, 30000);
// @verif prop=C07,C08,C09,C10 tier=thorough timeout=3000 mem=16 unwind=5 unwindset=::advance\.1$:2,::advance\.0$:3,::add\.0$:2,::add\.1$:1
// @enc Timers::{add_min,mod_min} Timers::advance Timers::next_expiry (real code end to end through a short history; cross-check of the inductive layer)
// @sym uptime in [0,40000 s]; every instant in [up-100 s, up+30000 s] (any ns)
// @bound 1 Min timer; history: add; advance; update; advance (the shape of finding F1); each advance <= 30100 s; map model capacity 2
// @stub FnOnceQueue::push_box -> callback invoked at once
// @assume BTreeMap modelled by harness/model/vmap.rs; initial state = empty timer set at arbitrary uptime (constructed)
timer_harness!(b_min_add_adv_upd_adv, hist_add_adv_upd_adv, Kind::Min, 40000, 100, 30000);
// @verif prop=C07,C08,C09,C10 tier=thorough timeout=3000 mem=16 unwind=5 unwindset=::advance\.1$:2,::advance\.0$:3,::add\.0$:2,::add\.1$:1
// @enc Timers::{add_max,del_max} Timers::advance Timers::next_expiry (real code end to end through a short history; cross-check of the inductive layer)
// @sym uptime in [0,40000 s]; every instant in [up-100 s, up+30000 s] (any ns)
// @bound 1 Max timer; history: add; advance; delete; advance; delete; each advance <= 30100 s; map model capacity 2
// @stub FnOnceQueue::push_box -> callback invoked at once
// @assume BTreeMap modelled by harness/model/vmap.rs; initial state = empty timer set at arbitrary uptime (constructed)
timer_harness!(b_max_add_adv_del_adv, hist_add_adv_del_adv, Kind::Max, 40000, 100, 30000);
// @verif prop=C07,C08,C09,C10 tier=thorough timeout=3000 mem=16 unwind=5 unwindset=::advance\.1$:2,::advance\.0$:3,::add\.0$:2,::add\.1$:1
// @enc Timers::{add_min,mod_min} Timers::advance Timers::next_expiry (real code end to end through a short history; cross-check of the inductive layer)
// @sym uptime in [0,40000 s]; every instant in [up-100 s, up+30000 s] (any ns)
// @bound 1 Min timer; history: add; update; run at next_expiry(); each advance <= 30100 s; map model capacity 2
// @stub FnOnceQueue::push_box -> callback invoked at once
// @assume BTreeMap modelled by harness/model/vmap.rs; initial state = empty timer set at arbitrary uptime (constructed)
timer_harness!(b_min_progress, hist_progress, Kind::Min, 40000, 100, 30000);

// ------------------------------------------------------------------------------------------
// Layer I: INDUCTIVE steps at tick level (unbounded histories)
//
// Pre-state: a Timers value *constructed* at an arbitrary tick N (any uptime, any position relative to the
// 32-bit wrap of the cyclic time) holding ONE pending timer whose internal numbers satisfy the representation
// invariant INV below, together with the ghost values of the reference model:
//     E  = ceil(effective expiry)            (tick)
//     S1 = floor(time the expiry was last set) + 1 tick
// Every add_* establishes INV (base harnesses); every operation preserves it (step harnesses).  Hence INV holds
// after any history, and the per-step assertions hold at every step of every history:
//     C07t  a timer fires in an advance to N' only if E <= N'           (+ lemma a_time_no_early  => now >= expiry)
//     C08t  if N' >= max(E, S1) the timer has fired                       (+ lemma a_time_monotone => one step past deadline)
//     C09t  next_expiry() is the instant of the first key K, N < K <= max(E, S1)   (+ lemma a_time_rounding / a_tick_after)
//     C10t  key operations answer `pending` and nothing else changes
// INV(kind): N < C, C - N <= 0x7FFF s, C <= max(E, S1), S1 <= N + 1, sub-second fields valid,
//            fixed: C == max(E, S1) and C - (S1 - 1) < 0x7FFF s;  var: slot.expiry == E, slot.curr == C,
//            queue == {(C.wt(), slot)}.
// ------------------------------------------------------------------------------------------

const LONG: u64 = 0x7FFF << 16;

fn valid_floor(t: u64) -> bool {
    t < (1 << 50) && (t & 0xFFFF) <= 61035
}
fn valid_ceil(t: u64) -> bool {
    t < (1 << 50) && (t & 0xFFFF) <= 61036
}

#[derive(Copy, Clone)]
struct Ghost {
    kind: Kind,
    e: u64,  // ceil(effective expiry)
    s1: u64, // floor(set time) + 1
    c: u64,  // tick of the queue entry
    slot: u32,
    gnn: u32,
}

fn inv_numbers(n: u64, g: &Ghost) -> bool {
    let dl = if g.e > g.s1 { g.e } else { g.s1 };
    let base = valid_floor(n) && valid_ceil(g.e) && valid_ceil(g.c) && valid_ceil(g.s1) && g.s1 >= 1
        && n < g.c && g.c - n <= LONG && g.c <= dl && g.s1 <= n + 1;
    match g.kind {
        Kind::Fixed => base && g.c == dl && g.c - (g.s1 - 1) < LONG && g.slot >= 0x8000_0000,
        _ => base && g.slot == 0 && g.gnn != 0,
    }
}

fn any_ghost(kind: Kind) -> (u64, Ghost) {
    let n: u64 = kani::any();
    let g = Ghost { kind, e: kani::any(), s1: kani::any(), c: kani::any(), slot: if kind == Kind::Fixed { kani::any() } else { 0 }, gnn: if kind == Kind::Fixed { 0 } else { kani::any() } };
    kani::assume(inv_numbers(n, &g));
    (n, g)
}

// Build the implementation state described by (n, g)
fn build(n: u64, g: &Ghost, id: u8) -> World {
    let mut w = World::new();
    w.t.now = Time(n);
    w.t.var = Vec::with_capacity(2);
    match g.kind {
        Kind::Fixed => {
            w.t.seq = g.slot & 0x7FFF_FFFF;
        }
        Kind::Max => w.t.var.push(VarSlot { gnn: g.gnn, item: VarItem::Max(VarTimer { expiry: Time(g.e), curr: Time(g.c) }) }),
        Kind::Min => w.t.var.push(VarSlot { gnn: g.gnn, item: VarItem::Min(VarTimer { expiry: Time(g.e), curr: Time(g.c) }) }),
    }
    let old = w.t.queue.insert(TimerKey::new(Time(g.c).wt(), g.slot), cb(id));
    std::mem::forget(old);
    w
}

// Read the single pending timer back out of the implementation state; None if nothing is pending
fn read_back(w: &World, kind: Kind, e: u64, s1: u64) -> Option<Ghost> {
    let first = w.t.queue.iter().next().map(|(k, _)| *k);
    match first {
        None => None,
        Some(k) => {
            let c = k.time.time(w.t.now).0;
            let mut g = Ghost { kind, e, s1, c, slot: k.slot, gnn: 0 };
            if k.slot < 0x8000_0000 {
                let slot = &w.t.var[k.slot as usize];
                g.gnn = slot.gnn;
                match &slot.item {
                    VarItem::Max(vt) => {
                        assert!(kind == Kind::Max && vt.expiry.0 == e && vt.curr.0 == c, "INV: Max slot disagrees with queue/model");
                    }
                    VarItem::Min(vt) => {
                        assert!(kind == Kind::Min && vt.expiry.0 == e && vt.curr.0 == c, "INV: Min slot disagrees with queue/model");
                    }
                    VarItem::Free(_) => assert!(false, "INV: queue entry points to a free slot"),
                }
            } else {
                assert!(kind == Kind::Fixed, "INV: fixed queue entry for a var timer");
            }
            Some(g)
        }
    }
}

fn queue_len(w: &World) -> usize {
    let mut it = w.t.queue.iter();
    let a = it.next().is_some();
    let b = it.next().is_some();
    (a as usize) + (b as usize)
}

// C09t on the current state with one pending timer
fn check_next_expiry(w: &World, g: Option<&Ghost>) {
    let ne = w.t.next_expiry();
    match g {
        None => assert!(ne.is_none(), "C09: next_expiry must be None when nothing is pending"),
        Some(g) => {
            assert!(ne == Some(Time(g.c).instant(w.t0)), "C09: next_expiry is not the instant of the earliest entry");
        }
    }
}

fn tick_of_floor(w: &World, x: Off) -> u64 {
    Time::new_floor(at(w.t0, x.0, x.1), w.t0).0
}
fn tick_of_ceil(w: &World, x: Off) -> u64 {
    Time::new_ceil(at(w.t0, x.0, x.1), w.t0).0
}

// advance to an arbitrary instant within `max_ahead_secs` of the current tick (or earlier: then nothing may happen)
fn any_target(n: u64, max_ahead_secs: u64) -> Off {
    let x = any_off(0, (1 << 34) + max_ahead_secs);
    kani::assume(x.0 <= (n >> 16) + max_ahead_secs);
    x
}

fn ind_advance(kind: Kind, max_ahead_secs: u64) {
    let (n, g) = any_ghost(kind);
    kani::assume(n < (1 << 50) - (0x30000 << 16));
    let mut w = build(n, &g, 0);
    let x = any_target(n, max_ahead_secs);
    let nf = tick_of_floor(&w, x);
    let n2 = if nf > n { nf } else { n };
    w.c.in_run = true;
    w.t.advance(w.inst(x), &mut w.q);
    w.q.execute(&mut w.c);
    w.c.in_run = false;
    assert!(w.t.now.0 == n2, "timer clock = max(old, floor(target))");
    let fired = w.c.cnt[0];
    assert!(fired <= 1, "C08: fired more than once");
    let dl = if g.e > g.s1 { g.e } else { g.s1 };
    if fired == 1 {
        assert!(g.e <= n2, "C07: fired before its effective expiry");
        assert!(n2 > n, "C15/C07: fired although time did not advance");
        assert!(read_back(&w, kind, g.e, g.s1).is_none() && queue_len(&w) == 0, "C08: fired timer still queued");
        if kind != Kind::Fixed {
            assert!(matches!(w.t.var[0].item, VarItem::Free(_)) && w.t.var[0].gnn != g.gnn && w.t.var[0].gnn != 0 && w.t.var_free == Some(0),
                    "C10: slot of a fired timer not released with a new generation");
        }
        check_next_expiry(&w, None);
    } else {
        assert!(n2 < dl, "C08: not fired although the clock reached its deadline tick");
        let g2 = read_back(&w, kind, g.e, g.s1);
        assert!(g2.is_some() && queue_len(&w) == 1, "C08: pending timer lost from the queue");
        let g2 = g2.unwrap();
        assert!(g2.slot == g.slot && g2.gnn == g.gnn, "C10: key of a pending timer changed");
        assert!(inv_numbers(n2, &g2), "INV not preserved by advance");
        if kind != Kind::Min {
            assert!(g2.c >= g.c, "C09: queue entry moved backwards");
        }
        check_next_expiry(&w, Some(&g2));
    }
    kani::cover!(fired == 1, "fired");
    kani::cover!(fired == 0 && n2 > n, "advanced without firing");
    kani::cover!((fired == 0 && n2 > n && g.c <= n2) || kind == Kind::Fixed, "re-queued");
    kani::cover!(n2 == n, "non-advancing call");
    kani::cover!(n2 - n > LONG, "multi-step jump");
    kani::cover!((n as u32) > (n2 as u32) && n2 > n, "crossed the 32-bit wrap of cyclic time");
    std::mem::forget(w);
}

// base: add_* from the empty state at an arbitrary tick establishes INV and the C09 bound; no callback inside add
fn ind_base_add(kind: Kind) {
    let n: u64 = kani::any();
    kani::assume(valid_floor(n) && n < (1 << 49));
    let mut w = World::new();
    w.t.now = Time(n);
    w.t.var = Vec::with_capacity(2);
    w.t.seq = kani::any();
    let e_off = any_off(0, 1 << 33);
    let e = tick_of_ceil(&w, e_off);
    let (key, _m) = add_timer(&mut w, kind, e_off, 0);
    assert!(!w.c.outside && w.c.cnt[0] == 0, "C07: callback ran inside add");
    let s1 = n + 1;
    // a fixed timer 0x7FFF s or more ahead is carried by a Max slot
    let long = kind == Kind::Fixed && (if e > s1 { e } else { s1 }) >= n + LONG;
    let k2 = if long { Kind::Max } else { kind };
    let g = read_back(&w, k2, e, s1);
    assert!(g.is_some() && queue_len(&w) == 1, "add did not queue the timer");
    let g = g.unwrap();
    assert!(inv_numbers(n, &g), "INV not established by add");
    match key {
        Key::F(k) => assert!(k.slot == g.slot && (if long { k.gen_or_time == g.gnn } else { k.gen_or_time == g.c as u32 }), "C10: key does not name the queued timer"),
        Key::Mx(k) => assert!(k.slot == g.slot && k.gnn == g.gnn && w.t.max_is_active(k), "C10: key does not name the queued timer"),
        Key::Mn(k) => assert!(k.slot == g.slot && k.gnn == g.gnn && w.t.min_is_active(k), "C10: key does not name the queued timer"),
    }
    check_next_expiry(&w, Some(&g));
    kani::cover!(long || kind != Kind::Fixed, "long fixed timer (Max slot)");
    kani::cover!(e <= n, "expiry in the past");
    kani::cover!(e > n + 1 && !long, "expiry in the future");
    std::mem::forget(w);
}

// step: update of a Max / Min timer
fn ind_update(kind: Kind) {
    let (n, g) = any_ghost(kind);
    let mut w = build(n, &g, 0);
    let e_off = any_off(0, 1 << 33);
    let e_new = tick_of_ceil(&w, e_off);
    let i = w.inst(e_off);
    let (r, e2, changed) = match kind {
        Kind::Max => (w.t.mod_max(MaxTimerKey { slot: 0, gnn: g.gnn }, i), if e_new > g.e { e_new } else { g.e }, e_new > g.e),
        _ => (w.t.mod_min(MinTimerKey { slot: 0, gnn: g.gnn }, i), if e_new < g.e { e_new } else { g.e }, e_new < g.e),
    };
    assert!(r, "C10: update of a pending timer must return true");
    assert!(!w.c.outside && w.c.cnt[0] == 0, "C07: callback ran inside update");
    let s2 = if changed { n + 1 } else { g.s1 };
    let g2 = read_back(&w, kind, e2, s2);
    assert!(g2.is_some() && queue_len(&w) == 1, "C08: update lost the timer");
    let g2 = g2.unwrap();
    assert!(g2.slot == 0 && g2.gnn == g.gnn, "C10: key changed by update");
    assert!(inv_numbers(n, &g2), "INV not preserved by update");
    assert!(w.t.now.0 == n);
    check_next_expiry(&w, Some(&g2));
    kani::cover!((changed && g2.c != g.c) || kind != Kind::Min, "update re-queued the timer");
    kani::cover!(changed && g2.c == g.c, "update absorbed");
    kani::cover!(!changed, "update in the ignored direction");
    kani::cover!(e_new <= n, "update to the past");
    std::mem::forget(w);
}

// step: delete
fn ind_delete(kind: Kind) {
    let (n, g) = any_ghost(kind);
    let mut w = build(n, &g, 0);
    let r = match kind {
        Kind::Fixed => w.t.del(FixedTimerKey { slot: g.slot, gen_or_time: g.c as u32 }),
        Kind::Max => {
            if kani::any() {
                w.t.del_max(MaxTimerKey { slot: 0, gnn: g.gnn })
            } else {
                w.t.del(FixedTimerKey { slot: 0, gen_or_time: g.gnn }) // long fixed timer
            }
        }
        Kind::Min => w.t.del_min(MinTimerKey { slot: 0, gnn: g.gnn }),
    };
    assert!(r, "C10: delete of a pending timer must return true");
    assert!(queue_len(&w) == 0, "C10: deleted timer left in the queue");
    assert!(w.c.cnt[0] == 0 && !w.c.outside, "C07: callback ran inside delete");
    check_next_expiry(&w, None);
    if kind != Kind::Fixed {
        assert!(matches!(w.t.var[0].item, VarItem::Free(_)) && w.t.var[0].gnn != g.gnn && w.t.var[0].gnn != 0 && w.t.var_free == Some(0),
                "C10: slot not released with a new generation");
        // the same key again, and every query, now answer false
        assert!(!w.t.del_max(MaxTimerKey { slot: 0, gnn: g.gnn }) && !w.t.del_min(MinTimerKey { slot: 0, gnn: g.gnn }));
        assert!(!w.t.max_is_active(MaxTimerKey { slot: 0, gnn: g.gnn }) && !w.t.min_is_active(MinTimerKey { slot: 0, gnn: g.gnn }));
        assert!(!w.t.mod_max(MaxTimerKey { slot: 0, gnn: g.gnn }, w.t0) && !w.t.mod_min(MinTimerKey { slot: 0, gnn: g.gnn }, w.t0));
    } else {
        assert!(!w.t.del(FixedTimerKey { slot: g.slot, gen_or_time: g.c as u32 }));
    }
    kani::cover!(true, "deleted");
    std::mem::forget(w);
}

// step: any operation with a key that does NOT name the pending timer (stale generation, other slot,
// Default key, key of another kind) is false and changes nothing
fn ind_stale_key(kind: Kind) {
    let (n, g) = any_ghost(kind);
    let mut w = build(n, &g, 0);
    let slot: u32 = kani::any();
    let gen: u32 = kani::any();
    let names_it = match kind {
        Kind::Fixed => slot == g.slot && gen == g.c as u32,
        _ => slot == 0 && gen == g.gnn,
    };
    kani::assume(!names_it);
    kani::assume(slot < 2 || slot >= 0x8000_0000); // slot table has one entry: index 0 valid, 1 out of range
    let e_off = any_off(0, 1 << 33);
    let i = w.inst(e_off);
    let op: u8 = kani::any();
    let r = match op {
        0 => w.t.del(FixedTimerKey { slot, gen_or_time: gen }),
        1 => w.t.del_max(MaxTimerKey { slot, gnn: gen }),
        2 => w.t.del_min(MinTimerKey { slot, gnn: gen }),
        3 => w.t.mod_max(MaxTimerKey { slot, gnn: gen }, i),
        4 => w.t.mod_min(MinTimerKey { slot, gnn: gen }, i),
        5 => w.t.max_is_active(MaxTimerKey { slot, gnn: gen }),
        6 => w.t.min_is_active(MinTimerKey { slot, gnn: gen }),
        7 => w.t.del(FixedTimerKey::default()) || w.t.del_max(MaxTimerKey::default()) || w.t.del_min(MinTimerKey::default())
            || w.t.mod_max(MaxTimerKey::default(), i) || w.t.mod_min(MinTimerKey::default(), i)
            || w.t.max_is_active(MaxTimerKey::default()) || w.t.min_is_active(MinTimerKey::default()),
        _ => false,
    };
    // A Max key on a Min timer of the same slot and generation (or vice versa) cannot be produced by the API:
    // keys are typed and generations are never shared between two timers (a_slot_generation_step).
    let cross_kind = slot == 0 && gen == g.gnn && kind != Kind::Fixed;
    if !cross_kind {
        assert!(!r, "C10: a key that names no pending timer answered true");
    }
    let g2 = read_back(&w, kind, g.e, g.s1);
    assert!(g2.is_some() && queue_len(&w) == 1, "C10: stale key removed another timer");
    let g2 = g2.unwrap();
    if !cross_kind {
        assert!(g2.c == g.c && g2.slot == g.slot && g2.gnn == g.gnn && w.t.now.0 == n, "C10: stale key modified another timer");
    }
    kani::cover!((op == 1 && slot == 0) || kind != Kind::Max, "stale generation on the live slot");
    kani::cover!((op == 0 && slot >= 0x8000_0000) || kind != Kind::Fixed, "stale fixed key");
    kani::cover!(op == 7, "default keys");
    std::mem::forget(w);
}

macro_rules! ind_harness {
    ($name:ident, $body:expr) => {
        #[kani::proof]
        #[kani::unwind(5)]
        #[kani::stub(crate::queue::FnOnceQueue::push_box, push_box_now)]
        fn $name() {
            $body;
        }
    };
}

// ---- base cases
// @verif prop=C07,C08,C09,C10,C19 tier=quick timeout=1200 mem=10 unwind=5 unwindset=::add\.0$:2,::add\.1$:1
// @enc Timers::add Timers::add_max Timers::alloc_slot Timers::next_expiry Time::new_ceil Time::instant WrapTime::time TimerKey::cmp
// @sym current tick N: any valid tick < 2^49; sequence counter any u32; expiry any instant t0+(0..2^33 s, any ns) (past, future, beyond 32767 s)
// @bound one add into an empty timer set (inductive base); map model capacity 2
// @assume BTreeMap modelled by harness/model/vmap.rs; state constructed at tick N
ind_harness!(i_base_add_fixed, ind_base_add(Kind::Fixed));
// @verif prop=C07,C08,C09,C10 tier=quick timeout=1200 mem=10 unwind=5
// @enc Timers::add_max Timers::alloc_slot Timers::next_expiry Time::new_ceil
// @sym as i_base_add_fixed
// @bound one add_max into an empty timer set (inductive base)
// @assume BTreeMap modelled by harness/model/vmap.rs; state constructed at tick N
ind_harness!(i_base_add_max, ind_base_add(Kind::Max));
// @verif prop=C07,C08,C09,C10 tier=quick timeout=1200 mem=10 unwind=5
// @enc Timers::add_min rounded_75point Timers::alloc_slot Timers::next_expiry Time::new_ceil
// @sym as i_base_add_fixed
// @bound one add_min into an empty timer set (inductive base)
// @assume BTreeMap modelled by harness/model/vmap.rs; state constructed at tick N
ind_harness!(i_base_add_min, ind_base_add(Kind::Min));

// ---- advance steps (quick: jumps up to 70000 s = three 0x7FFF s internal steps)
// @verif prop=C07,C08,C09,C10,C19 tier=quick timeout=2400 mem=14 unwind=5 unwindset=::advance\.1$:5,::advance\.0$:3
// @enc Timers::advance Timers::next_expiry Time::new_floor Time::add_secs WrapTime::cmp TimerKey::cmp (queue sink stubbed)
// @sym any pre-state satisfying INV(fixed): tick N < 2^50, entry tick C in (N, N+0x7FFF s), E, S1, slot id any >= 2^31; target any instant up to 70000 s ahead of N (or earlier)
// @bound one advance of <= 70000 s (<= 3 internal 0x7FFF s steps + exit) from an arbitrary INV state: inductive step, histories of any length
// @stub FnOnceQueue::push_box -> callback invoked at once (queue is a sink here; FIFO is C01/C17)
// @assume BTreeMap modelled by harness/model/vmap.rs (total-order precondition asserted); single pending timer
ind_harness!(i_adv_fixed, ind_advance(Kind::Fixed, 70000));
// @verif prop=C07,C08,C09,C10,C05 tier=quick timeout=2400 mem=14 unwind=5 unwindset=::advance\.1$:5,::advance\.0$:3
// @enc Timers::advance (Max branch) Timers::free_slot Timers::next_expiry
// @sym any pre-state satisfying INV(max): N, C in (N, N+0x7FFF s], E any (also > 18 h ahead), S1, generation any != 0; target up to 70000 s ahead
// @bound one advance of <= 70000 s from an arbitrary INV state (inductive step)
// @stub FnOnceQueue::push_box -> callback invoked at once
// @assume BTreeMap modelled by harness/model/vmap.rs; single pending timer
ind_harness!(i_adv_max, ind_advance(Kind::Max, 70000));
// @verif prop=C07,C08,C09,C10 tier=quick timeout=2400 mem=14 unwind=5 unwindset=::advance\.1$:5,::advance\.0$:3
// @enc Timers::advance (Min branch) rounded_75point Timers::free_slot Timers::next_expiry
// @sym any pre-state satisfying INV(min); target up to 70000 s ahead
// @bound one advance of <= 70000 s from an arbitrary INV state (inductive step)
// @stub FnOnceQueue::push_box -> callback invoked at once
// @assume BTreeMap modelled by harness/model/vmap.rs; single pending timer
ind_harness!(i_adv_min, ind_advance(Kind::Min, 70000));

// thorough: jumps up to 140000 s (five internal steps)
// @verif prop=C07,C08,C09,C10 tier=thorough timeout=3400 mem=20 unwind=5 unwindset=::advance\.1$:7,::advance\.0$:3
// @enc Timers::advance (Max branch)
// @sym any INV(max) pre-state; target up to 140000 s ahead
// @bound one advance of <= 140000 s (<= 5 internal steps) from an arbitrary INV state
// @stub FnOnceQueue::push_box -> callback invoked at once
// @assume BTreeMap modelled by harness/model/vmap.rs; single pending timer
ind_harness!(i_adv_max_long, ind_advance(Kind::Max, 140000));
// @verif prop=C07,C08,C09,C10,C19 tier=thorough timeout=3400 mem=20 unwind=5 unwindset=::advance\.1$:7,::advance\.0$:3
// @enc Timers::advance (fixed branch)
// @sym any INV(fixed) pre-state; target up to 140000 s ahead
// @bound one advance of <= 140000 s (<= 5 internal steps) from an arbitrary INV state
// @stub FnOnceQueue::push_box -> callback invoked at once
// @assume BTreeMap modelled by harness/model/vmap.rs; single pending timer
ind_harness!(i_adv_fixed_long, ind_advance(Kind::Fixed, 140000));

// @verif prop=C07,C08,C09,C10 tier=thorough timeout=3400 mem=20 unwind=5 unwindset=::advance\.1$:7,::advance\.0$:3
// @enc Timers::advance (Min branch) rounded_75point
// @sym any INV(min) pre-state; target up to 140000 s ahead
// @bound one advance of <= 140000 s (<= 5 internal steps) from an arbitrary INV state
// @stub FnOnceQueue::push_box -> callback invoked at once
// @assume BTreeMap modelled by harness/model/vmap.rs; single pending timer
ind_harness!(i_adv_min_long, ind_advance(Kind::Min, 140000));

// ---- update / delete / stale-key steps
// @verif prop=C07,C08,C09,C10 tier=quick timeout=1200 mem=10 unwind=5
// @enc Timers::mod_max
// @sym any INV(max) pre-state; new expiry any instant t0+(0..2^33 s)
// @bound one update from an arbitrary INV state (inductive step)
// @assume BTreeMap modelled by harness/model/vmap.rs
ind_harness!(i_upd_max, ind_update(Kind::Max));
// @verif prop=C07,C08,C09,C10 tier=quick timeout=1200 mem=10 unwind=5
// @enc Timers::mod_min rounded_75point
// @sym any INV(min) pre-state; new expiry any instant t0+(0..2^33 s) (before, at and after the current time)
// @bound one update from an arbitrary INV state (inductive step)
// @assume BTreeMap modelled by harness/model/vmap.rs
ind_harness!(i_upd_min, ind_update(Kind::Min));
// @verif prop=C09,C10 tier=quick timeout=1200 mem=10 unwind=5
// @enc Timers::del Timers::free_slot
// @sym any INV(fixed) pre-state
// @bound one delete (inductive step)
// @assume BTreeMap modelled by harness/model/vmap.rs
ind_harness!(i_del_fixed, ind_delete(Kind::Fixed));
// @verif prop=C09,C10,C05 tier=quick timeout=1200 mem=10 unwind=5
// @enc Timers::del_max Timers::del Timers::free_slot Timers::mod_max Timers::max_is_active
// @sym any INV(max) pre-state; deleted through the Max key or the long-fixed key
// @bound one delete (inductive step)
// @assume BTreeMap modelled by harness/model/vmap.rs
ind_harness!(i_del_max, ind_delete(Kind::Max));
// @verif prop=C09,C10 tier=quick timeout=1200 mem=10 unwind=5
// @enc Timers::del_min Timers::free_slot Timers::mod_min Timers::min_is_active
// @sym any INV(min) pre-state
// @bound one delete (inductive step)
// @assume BTreeMap modelled by harness/model/vmap.rs
ind_harness!(i_del_min, ind_delete(Kind::Min));
// @verif prop=C10 tier=quick timeout=1200 mem=10 unwind=5
// @enc Timers::del Timers::del_max Timers::del_min Timers::mod_max Timers::mod_min Timers::max_is_active Timers::min_is_active
// @sym any INV(fixed) pre-state; any key (slot, generation/time) that does not name the pending timer, and the Default keys; any of the 7 key operations
// @bound one operation (inductive step)
// @assume BTreeMap modelled by harness/model/vmap.rs
ind_harness!(i_stale_fixed, ind_stale_key(Kind::Fixed));
// @verif prop=C10 tier=quick timeout=1200 mem=10 unwind=5
// @enc as i_stale_fixed
// @sym any INV(max) pre-state; any non-naming key; any key operation
// @bound one operation (inductive step)
// @assume BTreeMap modelled by harness/model/vmap.rs
ind_harness!(i_stale_max, ind_stale_key(Kind::Max));
// @verif prop=C10 tier=quick timeout=1200 mem=10 unwind=5
// @enc as i_stale_fixed
// @sym any INV(min) pre-state; any non-naming key; any key operation
// @bound one operation (inductive step)
// @assume BTreeMap modelled by harness/model/vmap.rs
ind_harness!(i_stale_min, ind_stale_key(Kind::Min));


// step: a fixed-timer key that was issued earlier is never issued again (so a stale key cannot name a later timer):
// add A, remove it (delete; firing removes it from the queue the same way), add B at any instant
fn ind_fixed_key_fresh() {
    let n: u64 = kani::any();
    kani::assume(valid_floor(n) && n < (1 << 49));
    let mut w = World::new();
    w.t.now = Time(n);
    w.t.seq = kani::any();
    w.t.var = Vec::with_capacity(2);
    let ea = any_off(0, 1 << 33);
    let eb = any_off(0, 1 << 33);
    // both short (long fixed timers use generation-checked Max slots: i_del_max / i_stale_max)
    kani::assume(tick_of_ceil(&w, ea) < n + LONG && tick_of_ceil(&w, eb) < n + LONG);
    let ka = w.t.add(w.inst(ea), cb(0));
    assert!(ka.slot >= 0x8000_0000);
    assert!(w.t.del(ka), "C10: delete of a pending fixed timer");
    let kb = w.t.add(w.inst(eb), cb(1));
    assert!(ka != kb, "C10: a fixed-timer key was issued twice");
    assert!(!w.t.del(ka), "C10: stale fixed key deleted a later timer");
    assert!(queue_len(&w) == 1, "C10: stale key removed another timer");
    assert!(w.t.del(kb) && queue_len(&w) == 0);
    assert!(!w.t.del(kb) && !w.t.del(ka) && !w.t.del(FixedTimerKey::default()));
    kani::cover!(tick_of_ceil(&w, ea) == tick_of_ceil(&w, eb), "same tick re-armed");
    kani::cover!(w.t.seq < 5, "sequence counter wrapped");
    std::mem::forget(w);
}
// @verif prop=C10 tier=quick timeout=1200 mem=10 unwind=5 unwindset=::add\.0$:2,::add\.1$:1
// @enc Timers::add Timers::del
// @sym tick N any; sequence counter any u32 (including the wrap); two expiry instants any (same tick or not), both < 32767 s ahead
// @bound add, delete, add, stale delete (inductive in the sequence counter)
// @assume BTreeMap modelled by harness/model/vmap.rs
ind_harness!(i_fixed_key_fresh, ind_fixed_key_fresh());

// step: slot recycling across kinds.  Pre-state: slot 0 holds a live timer (kind K0, INV), slot 1 is FREE with an
// arbitrary generation g1 (it was used by some earlier timer of any kind whose key (1, g_old) is stale: g_old != g1,
// by a_slot_generation_step).  A new Max or Min timer is created: it must take slot 1 with generation g1, the stale
// key must stay inert for every operation, and the live timer in slot 0 must be untouched.
fn ind_slot_reuse(k0: Kind, k1: Kind) {
    let (n, g) = any_ghost(k0);
    let mut w = build(n, &g, 0);
    let g1: u32 = kani::any();
    let g_old: u32 = kani::any();
    kani::assume(g1 != 0 && g_old != g1);
    w.t.var.push(VarSlot { gnn: g1, item: VarItem::Free(None) });
    w.t.var_free = Some(1);
    let e_off = any_off(0, 1 << 33);
    let i = w.inst(e_off);
    let (slot, gen) = match k1 {
        Kind::Max => {
            let k = w.t.add_max(i, cb(1));
            (k.slot, k.gnn)
        }
        _ => {
            let k = w.t.add_min(i, cb(1));
            (k.slot, k.gnn)
        }
    };
    assert!(slot == 1 && gen == g1 && w.t.var_free.is_none(), "C10: a new timer must reuse the free slot with its current generation");
    assert!(queue_len(&w) == 2, "C10: creating a timer in a recycled slot disturbed another timer");
    // the stale key of the slot's previous user: false and inert, whatever its kind was
    let op: u8 = kani::any();
    let r = match op {
        0 => w.t.del(FixedTimerKey { slot: 1, gen_or_time: g_old }),
        1 => w.t.del_max(MaxTimerKey { slot: 1, gnn: g_old }),
        2 => w.t.del_min(MinTimerKey { slot: 1, gnn: g_old }),
        3 => w.t.mod_max(MaxTimerKey { slot: 1, gnn: g_old }, i),
        4 => w.t.mod_min(MinTimerKey { slot: 1, gnn: g_old }, i),
        5 => w.t.max_is_active(MaxTimerKey { slot: 1, gnn: g_old }),
        _ => w.t.min_is_active(MinTimerKey { slot: 1, gnn: g_old }),
    };
    assert!(!r, "C10: a stale key answered true after its slot was reused");
    assert!(queue_len(&w) == 2 && w.t.var[1].gnn == g1 && !matches!(w.t.var[1].item, VarItem::Free(_)), "C10: a stale key modified the timer that reuses its slot");
    // the new key works, and deleting the new timer frees the slot again with yet another generation
    let r2 = match k1 {
        Kind::Max => w.t.max_is_active(MaxTimerKey { slot: 1, gnn: g1 }) && w.t.del_max(MaxTimerKey { slot: 1, gnn: g1 }),
        _ => w.t.min_is_active(MinTimerKey { slot: 1, gnn: g1 }) && w.t.del_min(MinTimerKey { slot: 1, gnn: g1 }),
    };
    assert!(r2 && queue_len(&w) == 1 && w.t.var_free == Some(1) && w.t.var[1].gnn != g1 && w.t.var[1].gnn != 0, "C10: delete of the recycled timer");
    // slot 0's timer is still exactly as it was
    let back = read_back(&w, k0, g.e, g.s1);
    assert!(back.is_some() && back.unwrap().c == g.c && back.unwrap().gnn == g.gnn, "C10: another timer was modified");
    kani::cover!(op == 1, "stale Max key");
    kani::cover!(g1 == u32::MAX, "generation about to wrap");
    std::mem::forget(w);
}
// @verif prop=C10 tier=quick timeout=1200 mem=12 unwind=5
// @enc Timers::add_max Timers::alloc_slot Timers::del_max Timers::free_slot + all key operations
// @sym live Max timer in slot 0 (any INV state); free slot 1 with any generation; stale generation any other value; new expiry any; any of the 7 key operations with the stale key
// @bound one allocation into a recycled slot, one stale-key operation, one delete (inductive over the free list head and generations)
// @assume BTreeMap modelled by harness/model/vmap.rs (2 entries)
ind_harness!(i_slot_reuse_max_max, ind_slot_reuse(Kind::Max, Kind::Max));
// @verif prop=C10 tier=quick timeout=1200 mem=12 unwind=5
// @enc Timers::add_min Timers::alloc_slot Timers::del_min Timers::free_slot + all key operations
// @sym live Min timer in slot 0; free slot 1 recycled by a new Min timer... (as i_slot_reuse_max_max with kinds Min/Max swapped)
// @bound as i_slot_reuse_max_max
// @assume BTreeMap modelled by harness/model/vmap.rs (2 entries)
ind_harness!(i_slot_reuse_min_max, ind_slot_reuse(Kind::Min, Kind::Max));
// @verif prop=C10 tier=quick timeout=1200 mem=12 unwind=5
// @enc as i_slot_reuse_max_max (new timer is a Min timer)
// @sym live Max timer in slot 0; free slot 1 recycled by a new Min timer
// @bound as i_slot_reuse_max_max
// @assume BTreeMap modelled by harness/model/vmap.rs (2 entries)
ind_harness!(i_slot_reuse_max_min, ind_slot_reuse(Kind::Max, Kind::Min));

// ------------------------------------------------------------------------------------------
// Layer C: two fixed timers pending together (C19 order, mutual non-interference), inductive step
// INV2: INV for each; A was created before B: slotA < slotB (sequence numbers, no 2^31 wrap in between),
//       S1A <= S1B, and A was still pending when B was created: cA >= S1B.
// ------------------------------------------------------------------------------------------

fn two_fixed(clamped_class: bool, max_ahead_secs: u64) {
    let n: u64 = kani::any();
    let a = Ghost { kind: Kind::Fixed, e: kani::any(), s1: kani::any(), c: kani::any(), slot: kani::any(), gnn: 0 };
    let b = Ghost { kind: Kind::Fixed, e: kani::any(), s1: kani::any(), c: kani::any(), slot: kani::any(), gnn: 0 };
    kani::assume(inv_numbers(n, &a) && inv_numbers(n, &b));
    kani::assume(a.slot < b.slot && a.s1 <= b.s1 && a.c >= b.s1);
    kani::assume(n < (1 << 50) - (0x30000 << 16));
    // the class of finding F2: the timer with the earlier deadline had that deadline clamped at creation
    let earlier_clamped = (a.e < b.e && a.c > a.e) || (b.e < a.e && b.c > b.e);
    kani::assume(earlier_clamped == clamped_class);
    let mut w = World::new();
    w.t.now = Time(n);
    w.t.seq = b.slot & 0x7FFF_FFFF;
    std::mem::forget(w.t.queue.insert(TimerKey::new(Time(a.c).wt(), a.slot), cb(0)));
    std::mem::forget(w.t.queue.insert(TimerKey::new(Time(b.c).wt(), b.slot), cb(1)));
    let x = any_target(n, max_ahead_secs);
    let nf = tick_of_floor(&w, x);
    let n2 = if nf > n { nf } else { n };
    w.c.in_run = true;
    w.t.advance(w.inst(x), &mut w.q);
    w.q.execute(&mut w.c);
    w.c.in_run = false;
    let (fa, fb) = (w.c.cnt[0], w.c.cnt[1]);
    assert!(fa <= 1 && fb <= 1, "C08: fired more than once");
    // each timer behaves as if alone
    assert!((fa == 1) == (n2 >= a.c), "C07/C08: timer A fired early / not fired on time next to another timer");
    assert!((fb == 1) == (n2 >= b.c), "C07/C08: timer B fired early / not fired on time next to another timer");
    assert!(queue_len(&w) == 2 - (fa as usize) - (fb as usize), "C08: queue does not hold exactly the pending timers");
    if fa == 1 && fb == 1 {
        let a_first = w.c.order[0] == 0 && w.c.order[1] == 1;
        let b_first = w.c.order[0] == 1 && w.c.order[1] == 0;
        assert!(a_first || b_first);
        // C19: deadline order (ceil ticks of deadlines >= 2 steps apart are strictly ordered: lemma a_time_monotone)
        if a.e < b.e {
            assert!(a_first, "C19: fixed timers fired out of deadline order");
        }
        if b.e < a.e {
            assert!(b_first, "C19: fixed timers fired out of deadline order");
        }
        // identical instant given at the same time: creation order
        if a.e == b.e && a.s1 == b.s1 {
            assert!(a_first, "C19: same-instant fixed timers fired out of creation order");
        }
    }
    if fa == 0 && fb == 0 {
        let first = w.t.queue.iter().next().map(|(k, _)| k.time.time(w.t.now).0);
        assert!(first == Some(if a.c < b.c { a.c } else { b.c }), "C09: next_expiry is not the earliest pending entry");
    }
    kani::cover!(fa == 1 && fb == 1 && a.e < b.e, "both fired, A's deadline first");
    kani::cover!(fa == 1 && fb == 1 && b.e < a.e, "both fired, B's deadline first");
    kani::cover!(fa == 1 && fb == 1 && a.e == b.e && a.s1 == b.s1, "both fired, identical instant");
    kani::cover!(fa + fb == 1, "only one fired");
    kani::cover!(fa == 1 && fb == 1 && n2 - n > LONG, "both fired in a multi-step jump");
    std::mem::forget(w);
}

// @verif prop=C19,C07,C08 tier=quick timeout=1500 mem=14 unwind=5 unwindset=::advance\.1$:5,::advance\.0$:4
// @enc Timers::advance Timers::next_expiry TimerKey::cmp WrapTime::cmp (queue sink stubbed)
// @sym any two fixed timers A (older) and B satisfying INV2: ticks N, cA, cB in (N, N+0x7FFF s), deadlines EA, EB, creation times, sequence ids; target up to 70000 s ahead
// @bound one advance (<= 3 internal steps) from an arbitrary 2-timer INV2 state (inductive step); class: the earlier-deadline timer was NOT clamped at creation
// @stub FnOnceQueue::push_box -> callback invoked at once (execution order = push order; queue FIFO is C01/C17)
// @assume BTreeMap modelled by harness/model/vmap.rs (total-order precondition asserted); no 2^31 wrap of the sequence counter between the two creations
ind_harness!(c_two_fixed_order, two_fixed(false, 70000));

// A variable (Max or Min) timer and a fixed timer pending together: each must behave exactly as it does alone.
fn var_and_fixed(kind: Kind, max_ahead_secs: u64) {
    let (n, g) = any_ghost(kind);
    let f = Ghost { kind: Kind::Fixed, e: kani::any(), s1: kani::any(), c: kani::any(), slot: kani::any(), gnn: 0 };
    kani::assume(inv_numbers(n, &f));
    kani::assume(n < (1 << 50) - (0x30000 << 16));
    let mut w = build(n, &g, 0);
    w.t.seq = f.slot & 0x7FFF_FFFF;
    std::mem::forget(w.t.queue.insert(TimerKey::new(Time(f.c).wt(), f.slot), cb(1)));
    let x = any_target(n, max_ahead_secs);
    let nf = tick_of_floor(&w, x);
    let n2 = if nf > n { nf } else { n };
    w.c.in_run = true;
    w.t.advance(w.inst(x), &mut w.q);
    w.q.execute(&mut w.c);
    w.c.in_run = false;
    let (fv, ff) = (w.c.cnt[0], w.c.cnt[1]);
    assert!(fv <= 1 && ff <= 1, "C08: fired more than once");
    assert!((ff == 1) == (n2 >= f.c), "C07/C08: fixed timer fired early / late next to a variable timer");
    let dl = if g.e > g.s1 { g.e } else { g.s1 };
    if fv == 1 {
        assert!(g.e <= n2 && n2 > n, "C07: variable timer fired before its effective expiry next to a fixed timer");
        assert!(matches!(w.t.var[0].item, VarItem::Free(_)) && w.t.var[0].gnn != g.gnn, "C10: slot not released");
    } else {
        assert!(n2 < dl, "C08: variable timer not fired although the clock reached its deadline tick (next to a fixed timer)");
        assert!(!matches!(w.t.var[0].item, VarItem::Free(_)) && w.t.var[0].gnn == g.gnn, "C10: pending timer's slot changed");
    }
    assert!(queue_len(&w) == 2 - (fv as usize) - (ff as usize), "C08: queue does not hold exactly the pending timers");
    assert!(!w.c.outside);
    kani::cover!(fv == 1 && ff == 1, "both fired");
    kani::cover!(fv == 0 && ff == 1, "only the fixed timer fired");
    kani::cover!(fv == 0 && ff == 0 && n2 > n, "neither fired");
    kani::cover!(n2 - n > LONG, "multi-step jump");
    std::mem::forget(w);
}
// @verif prop=C07,C08,C10 tier=thorough timeout=3000 mem=20 unwind=5 unwindset=::advance\.1$:5,::advance\.0$:4
// @enc Timers::advance (Max and fixed branches together) Timers::free_slot
// @sym any Max timer (INV) and any fixed timer (INV) pending together; target up to 70000 s ahead
// @bound one advance from an arbitrary 2-timer state (inductive step)
// @stub FnOnceQueue::push_box -> callback invoked at once
// @assume BTreeMap modelled by harness/model/vmap.rs (2 entries)
ind_harness!(c_max_and_fixed, var_and_fixed(Kind::Max, 70000));
// @verif prop=C07,C08,C10 tier=thorough timeout=3000 mem=20 unwind=5 unwindset=::advance\.1$:5,::advance\.0$:4
// @enc Timers::advance (Min and fixed branches together) rounded_75point
// @sym any Min timer (INV) and any fixed timer (INV) pending together; target up to 70000 s ahead
// @bound one advance from an arbitrary 2-timer state (inductive step)
// @stub FnOnceQueue::push_box -> callback invoked at once
// @assume BTreeMap modelled by harness/model/vmap.rs (2 entries)
ind_harness!(c_min_and_fixed, var_and_fixed(Kind::Min, 70000));

// The class recorded as finding F2 (known_findings.txt): the timer with the earlier deadline was given a deadline
// at or before "now + 1 tick", which `add` clamps; deadline order is then lost.  Fails on the pinned tree by design.
// @verif prop=C19 tier=quick timeout=1500 mem=14 unwind=5 unwindset=::advance\.1$:5,::advance\.0$:4
// @enc Timers::advance TimerKey::cmp
// @sym as c_two_fixed_order, restricted to the class where the earlier-deadline timer WAS clamped at creation
// @bound as c_two_fixed_order
// @stub FnOnceQueue::push_box -> callback invoked at once
// @assume BTreeMap modelled by harness/model/vmap.rs
ind_harness!(c_two_fixed_order_clamped, two_fixed(true, 70000));

#[cfg(uazu_replay_timers)]
include!(env!("UAZU_STAKKER_REPLAY_FILE"));

