// Harnesses in src/core.rs (child module: sees Core's private fields).  Property C20 (logging core).
//
// @file crate=incrate features=multi-stakker,no-unsafe-queue,logger restrict_vtable=1 replay_cfg=uazu_replay_core
use super::*;
use crate::uazu_stakker_verif::support::*;

static mut REC_N: u8 = 0;
static mut REC_ID: [u64; 4] = [0; 4];
static mut REC_LEVEL: [u8; 4] = [0; 4];
static mut REC_PARENT: [u64; 4] = [0; 4];
static mut NEST: bool = false;
static mut NESTED_ID: u64 = 0;
fn rreset() {
    unsafe {
        REC_N = 0;
        REC_ID = [0; 4];
        REC_LEVEL = [0; 4];
        REC_PARENT = [0; 4];
        NEST = false;
        NESTED_ID = 0;
    }
}
struct Vis {
    parent: u64,
}
impl LogVisitor for Vis {
    fn kv_u64(&mut self, key: Option<&str>, val: u64) {
        if key == Some("parent") {
            self.parent = val;
        }
    }
    fn kv_i64(&mut self, _key: Option<&str>, _val: i64) {}
    fn kv_f64(&mut self, _key: Option<&str>, _val: f64) {}
    fn kv_bool(&mut self, _key: Option<&str>, _val: bool) {}
    fn kv_null(&mut self, _key: Option<&str>) {}
    fn kv_str(&mut self, _key: Option<&str>, _val: &str) {}
    fn kv_fmt(&mut self, _key: Option<&str>, _val: &Arguments<'_>) {}
    fn kv_map(&mut self, _key: Option<&str>) {}
    fn kv_mapend(&mut self, _key: Option<&str>) {}
    fn kv_arr(&mut self, _key: Option<&str>) {}
    fn kv_arrend(&mut self, _key: Option<&str>) {}
}
fn recorder(core: &mut Core, r: &LogRecord<'_>) {
    unsafe {
        let i = REC_N as usize;
        if i < 4 {
            REC_ID[i] = r.id;
            REC_LEVEL[i] = r.level as u8;
            let mut v = Vis { parent: 0 };
            (r.kvscan)(&mut v);
            REC_PARENT[i] = v.parent;
        }
        REC_N += 1;
        // a logger may itself open a span while handling an Open record (e.g. to start its own sink)
        if NEST && r.level == LogLevel::Open && NESTED_ID == 0 {
            NEST = false;
            NESTED_ID = core.log_span_open("nested", 0, |_| {});
        }
    }
}
fn any_level() -> LogLevel {
    let k: u8 = kani::any();
    kani::assume(k <= 8);
    match k {
        0 => LogLevel::Trace,
        1 => LogLevel::Debug,
        2 => LogLevel::Info,
        3 => LogLevel::Warn,
        4 => LogLevel::Error,
        5 => LogLevel::Audit,
        6 => LogLevel::Open,
        7 => LogLevel::Close,
        _ => LogLevel::Off,
    }
}

// Span ids: from an ARBITRARY sequence counter, every id handed out is non-zero and differs from the previous
// one, also when the logger re-enters Core and opens a span while handling the Open record.
// @verif prop=C20 tier=quick timeout=1200 mem=16 unwind=12 unwindset=drop_glue::<\[.*Stakker\)>\]>\.0$:1
// @enc Core::log_span_open Core::log_span_close Core::log Core::log_check Stakker::set_logger LogFilter::{all,allows,from}
// @sym the id sequence counter (any u64, including the wrap at 2^64); parent id; whether the logger re-enters
// @bound two span opens (+ one nested open by the logger) and one close
// @stub std::hash::RandomState::new -> fixed keys
// @assume multi-stakker,no-unsafe-queue,logger build
#[kani::proof]
#[kani::unwind(12)]
#[kani::stub(std::hash::RandomState::new, crate::uazu_stakker_verif::support::fixed_random_state)]
fn lg_span_ids() {
    rreset();
    let mut s = Stakker::new(base_instant());
    s.set_logger(LogFilter::all(&[LogLevel::Open]), |c: &mut Core, r: &LogRecord<'_>| recorder(c, r)); // (a bare fn item here ICEs Kani 0.68)
    let seq: u64 = kani::any();
    s.log_id_seq = seq;
    let nest: bool = kani::any();
    unsafe { NEST = nest };
    let parent: u64 = kani::any();
    let id1 = s.log_span_open("a", parent, |_| {});
    let id2 = s.log_span_open("b", id1, |_| {});
    let nested = unsafe { NESTED_ID };
    assert!(id1 != 0 && id2 != 0, "C20: a LogID must be non-zero");
    assert!(id1 != id2, "C20: LogIDs must be fresh");
    if nest {
        assert!(nested != 0 && nested != id1 && nested != id2, "C20: a span opened by the logger while handling an Open record got a LogID that is not fresh");
    }
    unsafe {
        // (a span opened from inside the logger is not delivered to it: the logger is taken out while it runs)
        assert!(REC_N == 2, "C20: exactly one Open record per span");
        assert!(REC_ID[0] == id1 && REC_LEVEL[0] == LogLevel::Open as u8, "C20: Open record must carry the new id");
        assert!(REC_PARENT[0] == parent, "C20: Open record must carry the parent id (omitted when 0)");
        let second = 1;
        assert!(REC_ID[second] == id2 && REC_PARENT[second] == id1, "C20: Open record must carry its creator's id as parent");
    }
    s.log_span_close(id1, format_args!(""), |_| {});
    unsafe {
        let last = 2;
        assert!(REC_N as usize == last + 1 && REC_ID[last] == id1 && REC_LEVEL[last] == LogLevel::Close as u8, "C20: Close record must carry the span's id");
    }
    kani::cover!(seq == u64::MAX, "id counter wraps");
    kani::cover!(nest, "logger re-enters");
    std::mem::forget(s);
}

// Filtering: a record is delivered exactly when the installed filter allows its level, and log_check agrees.
// @verif prop=C20 tier=quick timeout=1200 mem=16 unwind=12 unwindset=drop_glue::<\[.*Stakker\)>\]>\.0$:1
// @enc Core::log Core::log_check Stakker::set_logger Stakker::set_log_filter LogFilter::{new,all,allows,from,bitor}
// @sym installed filter: any union of up to 3 levels of the 9; record level: any of the 9
// @bound one record
// @stub std::hash::RandomState::new -> fixed keys
// @assume multi-stakker,no-unsafe-queue,logger build
#[kani::proof]
#[kani::unwind(12)]
#[kani::stub(std::hash::RandomState::new, crate::uazu_stakker_verif::support::fixed_random_state)]
fn lg_filter() {
    rreset();
    let mut s = Stakker::new(base_instant());
    assert!(!s.log_check(any_level()), "C20: nothing is enabled before a logger is installed");
    let (l1, l2, l3) = (any_level(), any_level(), any_level());
    let filter = LogFilter::all(&[l1, l2]) | LogFilter::from(l3);
    s.set_logger(filter, |c: &mut Core, r: &LogRecord<'_>| recorder(c, r));
    let level = any_level();
    let id: u64 = kani::any();
    let check = s.log_check(level);
    assert!(check == filter.allows(level), "C20: log_check disagrees with the installed filter");
    s.log(id, level, "", format_args!(""), |_| {});
    unsafe {
        assert!((REC_N == 1) == check, "C20: delivery disagrees with log_check");
        if check {
            assert!(REC_ID[0] == id && REC_LEVEL[0] == level as u8, "C20: record altered");
        }
    }
    // what a filter built from levels must allow: the level itself (Off enables nothing), every higher severity
    // for the five ordinary levels, and Open/Close together
    assert!(filter.allows(l1) == (l1 != LogLevel::Off));
    if l3 == LogLevel::Open || l3 == LogLevel::Close {
        assert!(filter.allows(LogLevel::Open) && filter.allows(LogLevel::Close));
    }
    if (l3 as u8) < 4 {
        assert!(filter.allows(LogLevel::Error), "a severity filter must allow everything above it");
    }
    assert!(!LogFilter::new().allows(level) && LogFilter::new().is_empty());
    kani::cover!(check, "delivered");
    kani::cover!(!check, "filtered out");
    std::mem::forget(s);
}

#[cfg(uazu_replay_core)]
include!(env!("UAZU_STAKKER_REPLAY_FILE"));
