// harness module for core (see DESIGN.md)
