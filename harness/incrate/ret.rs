// harness module for ret (see DESIGN.md)
