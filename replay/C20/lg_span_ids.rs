// replay skipped (--no-replay)
// [{"id": "core::uazu_stakker_verif::lg_span_ids.assertion.4", "desc": "line 106 \"C20: exactly one Open record per span\"", "status": "FAILURE", "file": "/var/tmp/uazu-stakker-verif/C20-quick-20288/h-g0/incrate/core.rs", "function": "core::uazu_stakker_verif::lg_span_ids"}]
