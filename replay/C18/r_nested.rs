// replay skipped (--no-replay)
// [{"id": "runloop::all_saw.assertion.1", "desc": "line 74 \"C15: an item observed a now() other than the greatest instant given\"", "status": "FAILURE"}]
