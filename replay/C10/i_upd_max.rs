// replay skipped (--no-replay)
// [{"id": "timers::uazu_stakker_verif::ind_update.assertion.8", "desc": "line 777 \"INV not preserved by update\"", "status": "FAILURE"}]
