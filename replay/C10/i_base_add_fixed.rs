// replay skipped (--no-replay)
// [{"id": "timers::uazu_stakker_verif::ind_base_add.assertion.8", "desc": "line 746 \"INV not established by add\"", "status": "FAILURE"}]
