// replay skipped (--no-replay)
// [{"id": "uazu_stakker_verif::vmap::BTreeMap::<timers::TimerKey, std::boxed::Box<dyn for<'a> std::ops::FnOnce(&'a mut timers::uazu_stakker_verif::Ctx)>>::order.assertion.1", "desc": "line 69 \"BTreeMap precondition: key order not antisymmetric\"", "status": "FAILURE"}]
