// replay skipped (--no-replay)
// [{"id": "timers::uazu_stakker_verif::two_fixed.assertion.18", "desc": "line 1015 \"C19: fixed timers fired out of deadline order\"", "status": "FAILURE"}]
