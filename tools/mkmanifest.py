#!/usr/bin/env python3
"""Regenerates /verif/MANIFEST.json from the table below (single source of truth for claims)."""
import json, os, subprocess
V = '/verif'
TECH = 'bounded symbolic execution of the real Rust code (Kani 0.68 -> CBMC 6.11, CaDiCaL), kani::any() inputs, unwinding assertions on'
# property -> (claimed?, level text, level_note, design_ref)
CLAIMS = {
 'C04': ('Inductive solver proof over the whole packed ref-count/state word (any usize): one inc/dec/set_state step from an arbitrary word changes the count by exactly one unless saturated, reports zero exactly at 1->0 and never touches the state bits; so owner counting is exact for histories of any length.',
         'Covers the counting word only at this stage; ActorOwn drop -> deferred Dropped termination is decided by the harnesses listed in evidence. Ownership trees and ActorOwnSlab are outside the bound.', '§4 C04'),
}
NA = {
 'C14': 'PipedThread needs OS threads, a blocking Condvar and panic unwinding (catch_unwind); Kani is sequential with panic=abort and CBMC threads reject Arc-shared pointers: no encoding within reach (DESIGN §4 C14).',
}
PENDING = 'check under construction in this session (see DESIGN §8 build order); not claimed until it passes on the unchanged tree'
props = [json.loads(l) for l in open(V + '/properties.jsonl')]
checks = []; na = []
for p in props:
    i = p['id']
    if i in CLAIMS:
        text, note, ref = CLAIMS[i]
        checks.append(dict(property_id=i, quick_cmd='./check %s --tier quick' % i, thorough_cmd='./check %s --tier thorough' % i,
                           evidence_file='/verif/evidence/%s.json' % i, replay_cmd_template='./check %s --replay {path}' % i,
                           engine='kani-cbmc', level_claimed=dict(category='model_checking', text=text, design_ref=ref),
                           level_note=note, technique=TECH))
    else:
        na.append(dict(property_id=i, reason=NA.get(i, PENDING)))
hooks = subprocess.run(['git', '-C', '/repo', 'log', '--format=%H %s', '--grep', '^verif hooks'], capture_output=True, text=True).stdout.split('\n')
m = dict(version=1,
         setup_cmd='./setup.sh',
         hooks=dict(guard='cargo feature uazu-stakker-verif AND cfg(kani) (both needed; the feature alone changes nothing in an ordinary build)',
                    enable='cargo kani --features uazu-stakker-verif with env UAZU_STAKKER_VERIF=/verif/harness (harness modules are include!d from there)',
                    baseline_off_cmd='cd /repo && cargo nextest run --workspace --no-fail-fast --offline || cargo test --workspace --no-fail-fast --offline',
                    source_commits=[h.split()[0] for h in hooks if h.strip()], add_only=True),
         engines=[dict(name='kani-cbmc', path='/verif/check', serves_properties=[c['property_id'] for c in checks],
                       kind_free_text='Python driver: Kani codegen of /repo working tree -> goto-instrument -> CBMC per harness in parallel; evidence + replay')],
         checks=checks, not_applicable=na,
         notes='Exit codes of ./check: 0 = all selected harnesses proved and all cover witnesses satisfied; 1 = VIOLATION (solver counterexample, replayed); 2 = INCONCLUSIVE (timeout / out of memory / build failure / unsatisfied witness) - never reported as success.')
json.dump(m, open(V + '/MANIFEST.json', 'w'), indent=1)
print('claimed:', [c['property_id'] for c in checks])
