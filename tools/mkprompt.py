#!/usr/bin/env python3
"""Print the sub-agent prompt for seeding a property-breaking change (property text only; nothing from /verif)."""
import json, sys
pid = sys.argv[1]
for l in open('/verif/properties.jsonl'):
    p = json.loads(l)
    if p['id'] == pid: break
else: sys.exit('no such property')
wt = f'/tmp/wt/{pid}'
out = f'/tmp/wt/{pid}-out'
print(f"""You are helping to evaluate a verification framework by seeding realistic bugs (mutation testing) into a Rust library.
The library is uazu/stakker (a single-threaded actor runtime). You have your own scratch git worktree of it at {wt} . Work ONLY inside {wt} and {out} ; never read or touch /repo or /verif. The machine is offline (use `cargo ... --offline`). The library's test suite is `cd {wt} && cargo test --offline` (51 unit tests plus doctests; all pass on the unchanged tree). Lines guarded by `cfg(all(kani, feature = "uazu-stakker-verif"))` are inert verification hooks: ignore them and do not touch them.

Here is a semantic property the library is supposed to satisfy:

  id: {p['id']}
  title: {p['title']}
  statement: {p['statement']}
  quantified over: {p['quantifier']['text']}
  files most relevant: {', '.join(p['anchors']['files'])}

YOUR TASK: produce TWO different, independent changes ("m1" and "m2", touching different mechanisms if possible) to the library source under {wt}/src (not to its tests) such that each change
  (a) still compiles (default features; if you touch feature-specific files, also that feature set),
  (b) still passes the whole existing test suite (`cargo test --offline` fully green, including doctests), and
  (c) genuinely breaks the property above for some legitimate use of the public API.
Prefer subtle, realistic regressions of the kind a maintainer could plausibly introduce (an off-by-one, a wrong comparison, a dropped clamp, a reordered pair of statements, a missed case, a wrong rounding direction, an early return, a stale value reused ...). The change should need something SPECIFIC to manifest: a particular multi-step sequence of operations, an unusual input value or boundary, a particular interleaving/order of events, or two cooperating sites that each look fine alone. Do NOT produce changes that ordinary use would expose at once (they would fail the existing tests anyway), and do not change public signatures.

For each change also write a DEMONSTRATION: an integration test file using only the public API (e.g. {wt}/tests/demo_{pid.lower()}_m1.rs) that FAILS with your change applied and PASSES on the unchanged tree. Verify both directions yourself by actually running it (use `git stash`/`git checkout` or apply/reverse the patch), and verify `cargo test --offline` is green with the change applied (excluding your demo test).

DELIVERABLES, in {out}/m1/ and {out}/m2/ :
  - patch.diff : `git diff` of the library source change only (must apply with `git apply` to a clean checkout of HEAD; do NOT include the demo test in it)
  - demo.rs : the demonstration integration test (a copy)
  - notes.md : which behaviour breaks and why, exactly what is needed for it to manifest, and the exact commands you ran with their observed results (existing suite green with change; demo fails with change; demo passes without)
When finished, leave the worktree clean (`git checkout -- . && git clean -fdq` inside {wt}, but keep {out}). Your final message should summarise the two changes in a few lines each. If after real effort you can only produce one valid change, deliver one and say so.""")
