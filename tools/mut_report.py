#!/usr/bin/env python3
"""Writes the seeded-change detection table into DESIGN.md (section 10) from seeded/results.json + meta.json."""
import json, os, re
V = '/verif/seeded'
r = json.load(open(V + '/results.json'))
rows = []
for name in sorted(os.listdir(V)):
    d = V + '/' + name
    if not os.path.isdir(d): continue
    m = json.load(open(d + '/meta.json'))
    res = r.get(name, {})
    caught = sorted(p for p, v in res.items() if v['exit'] == 1)
    missed = sorted(p for p, v in res.items() if v['exit'] == 0)
    inc = sorted(p for p, v in res.items() if v['exit'] not in (0, 1))
    first = ''
    for p in caught:
        fc = res[p].get('failed_checks', [])
        if fc:
            first = fc[0].split('FAILED CHECK ')[-1]
            first = re.sub(r'^.*?::uazu_stakker_verif::', '', first)[:120]
            break
    m.update(checked_against=res, caught_by=caught, missed_by=missed, inconclusive=inc)
    json.dump(m, open(d + '/meta.json', 'w'), indent=1)
    rows.append((name, m.get('summary', ''), ', '.join(caught) or '-', ', '.join(missed + [i + ' (inconclusive)' for i in inc]) or '-', first))
out = ['| change | what it does | caught by | not caught by | first failing check |', '|---|---|---|---|---|']
for row in rows:
    out.append('| %s | %s | %s | %s | %s |' % tuple(x.replace('|', '/') for x in row))
n_own = sum(1 for row in rows if row[0].split('_')[0] in row[2].split(', '))
n_any = sum(1 for row in rows if row[2] != '-')
table = '\n'.join(out)
p = '/verif/DESIGN.md'
s = open(p).read()
head = '## 10. Seeded changes (mutation testing of the checks)'
if head in s:
    s = s[:s.index(head)]
s += head + '\n\n' + open('/verif/tools/mut_report_intro.md').read().replace('@N_ANY@', str(n_any)).replace('@N_OWN@', str(n_own)).replace('@N@', str(len(rows))) + '\n' + table + '\n'
open(p, 'w').write(s)
print(len(rows), 'changes;', n_any, 'caught by some check;', n_own, 'caught by the check of the property they were seeded for')
