#!/usr/bin/env python3
"""
Seeded-change bookkeeping (mutation testing of the checks).

  tools/mutants.py import             copy sub-agent deliveries /tmp/wt/<ID>-out/m<k>/ -> /verif/seeded/<ID>_m<k>/
  tools/mutants.py confirm [name..]   confirm in a scratch worktree: demo passes unchanged; with the patch the pinned suite
                                      still passes and the demo fails.  Writes meta.json.
  tools/mutants.py run <name> [PROP..] [--tier T]
                                      git -C /repo apply <patch>; ./check PROP ...; git -C /repo checkout -- .
                                      (PROP defaults to the property the change was seeded for).  Appends to results.json.
  tools/mutants.py table              print the detection matrix
"""
import json, os, re, shutil, subprocess, sys, time
V = '/verif'; SEED = V + '/seeded'; REPO = '/repo'; WT = '/tmp/wt/confirm'

def sh(cmd, cwd=None, timeout=3600, env=None):
    p = subprocess.run(cmd, shell=isinstance(cmd, str), cwd=cwd, capture_output=True, text=True, timeout=timeout, env=env)
    return p.returncode, p.stdout + p.stderr

def do_import():
    os.makedirs(SEED, exist_ok=True)
    for d in sorted(os.listdir('/tmp/wt')):
        m = re.match(r'(C\d+)-out$', d)
        if not m: continue
        for k in sorted(os.listdir('/tmp/wt/' + d)):
            src = '/tmp/wt/%s/%s' % (d, k)
            if not (os.path.isdir(src) and os.path.exists(src + '/patch.diff')): continue
            dst = '%s/%s_%s' % (SEED, m.group(1), k)
            if os.path.exists(dst): continue
            os.makedirs(dst)
            for f in ('patch.diff', 'demo.rs', 'notes.md'):
                if os.path.exists(src + '/' + f): shutil.copy(src + '/' + f, dst + '/' + f)
            print('imported', dst)

def fresh_wt():
    if not os.path.exists(WT):
        sh(['git', '-C', REPO, 'worktree', 'add', '-q', '--detach', WT, 'HEAD'])
    sh('git checkout -q --detach && git reset -q --hard %s && git clean -fdq' % sh(['git', '-C', REPO, 'rev-parse', 'HEAD'])[1].strip(), cwd=WT)
    if os.path.exists(REPO + '/Cargo.lock'): shutil.copy(REPO + '/Cargo.lock', WT + '/Cargo.lock')

def do_confirm(names):
    for name in names:
        d = '%s/%s' % (SEED, name)
        meta = dict(name=name, property=name.split('_')[0], confirmed=False)
        if os.path.exists(d + '/meta.json'):
            old = json.load(open(d + '/meta.json'))
            meta.update({k: old[k] for k in ('needs', 'summary') if k in old})
        fresh_wt()
        feats = ''
        demo = open(d + '/demo.rs').read()
        if 'logger' in demo and ('feature' in demo or name.startswith('C20')): feats = '--features logger'
        os.makedirs(WT + '/tests', exist_ok=True)
        shutil.copy(d + '/demo.rs', WT + '/tests/seeded_demo.rs')
        ran = []
        rc0, out0 = sh('cargo test --offline %s --test seeded_demo 2>&1 | tail -15' % feats, cwd=WT)
        ok0 = 'test result: ok' in out0 and 'FAILED' not in out0
        ran.append(('unchanged tree: cargo test --offline %s --test seeded_demo' % feats, 'pass' if ok0 else 'FAIL'))
        rc, out = sh(['git', 'apply', d + '/patch.diff'], cwd=WT)
        applied = rc == 0
        ran.append(('git apply patch.diff', 'ok' if applied else 'FAILED: ' + out[:200]))
        ok1 = ok2 = False
        if applied:
            rc1, out1 = sh('cargo test --offline --lib 2>&1 | grep "test result"; cargo test --offline --doc 2>&1 | grep "test result"', cwd=WT)
            res = re.findall(r'test result: (\w+)\. (\d+) passed; (\d+) failed', out1)
            ok1 = len(res) == 2 and all(r[0] == 'ok' for r in res) and int(res[0][1]) == 51
            ran.append(('changed tree: cargo test --offline --lib / --doc', '%s' % res))
            rc2, out2 = sh('cargo test --offline %s --test seeded_demo 2>&1 | tail -25' % feats, cwd=WT, timeout=1200)
            ok2 = ('test result: FAILED' in out2) or ('panicked' in out2) or ('SIGABRT' in out2) or ('signal' in out2) or ('error: test failed' in out2)
            ran.append(('changed tree: cargo test --offline %s --test seeded_demo' % feats, 'fails (as required)' if ok2 else 'DOES NOT FAIL'))
        meta['confirmed'] = bool(ok0 and applied and ok1 and ok2)
        meta['ran'] = ran
        meta['breaks'] = meta['property']
        notes = open(d + '/notes.md').read() if os.path.exists(d + '/notes.md') else ''
        meta.setdefault('needs', 'see notes.md')
        json.dump(meta, open(d + '/meta.json', 'w'), indent=1)
        print(name, 'CONFIRMED' if meta['confirmed'] else 'NOT CONFIRMED', ran)
    sh('git checkout -q -- . && git clean -fdq', cwd=WT)

def do_run_copy(name, props, tier, jobs):
    """Development shortcut: same as `run`, but on a scratch copy of /repo (VERIF_REPO) so that /repo stays untouched
    and several changes can be tried in parallel.  Recorded with via='scratch copy'."""
    d = '%s/%s' % (SEED, name)
    props = props or [name.split('_')[0]]
    cp = '/tmp/mrepo/' + name
    shutil.rmtree(cp, ignore_errors=True); os.makedirs('/tmp/mrepo', exist_ok=True)
    sh(['rsync', '-a', '--exclude', 'target', '--exclude', '.git', REPO + '/', cp + '/'])
    rc, out = sh(['git', 'apply', d + '/patch.diff'], cwd=cp)
    if rc != 0:
        sh('patch -p1 < %s/patch.diff' % d, cwd=cp)
    res = {}
    try:
        for p in props:
            t0 = time.time()
            env = dict(os.environ); env.update(VERIF_TIER=tier, VERIF_REPO=cp, VERIF_SCRATCH='/var/tmp/usv-m-' + name,
                                               VERIF_EVIDENCE_DIR='/tmp/mrepo/ev-' + name, VERIF_REPLAY_DIR='/tmp/mrepo/rp-' + name, VERIF_JOBS=str(jobs))
            rc, out = sh([V + '/check', p, '--tier', tier], cwd=V, timeout=7200, env=env)
            viol = [l for l in out.splitlines() if l.startswith('VIOLATION')]
            fails = [l.strip() for l in out.splitlines() if 'FAILED CHECK' in l][:6]
            inc = [l for l in out.splitlines() if l.startswith('INCONCLUSIVE')][:4]
            nat = [l.strip() for l in out.splitlines() if 'native=' in l][:3]
            res[p] = dict(exit=rc, violation_lines=viol, failed_checks=fails, inconclusive=inc, native=nat, wall_s=round(time.time() - t0), tier=tier, via='scratch copy of /repo (VERIF_REPO)')
            print(name, p, 'exit', rc, viol[:1], fails[:2], inc[:1], nat[:1], flush=True)
    finally:
        shutil.rmtree(cp, ignore_errors=True)
        shutil.rmtree('/tmp/mrepo/ev-' + name, ignore_errors=True); shutil.rmtree('/tmp/mrepo/rp-' + name, ignore_errors=True)
    import fcntl
    rf = SEED + '/results.json'
    with open(SEED + '/.lock', 'w') as lk:
        fcntl.flock(lk, fcntl.LOCK_EX)
        allr = json.load(open(rf)) if os.path.exists(rf) else {}
        allr.setdefault(name, {}).update(res)
        json.dump(allr, open(rf, 'w'), indent=1, sort_keys=True)

def do_run(name, props, tier):
    d = '%s/%s' % (SEED, name)
    props = props or [name.split('_')[0]]
    rc, out = sh(['git', '-C', REPO, 'status', '--porcelain'])
    if out.strip():
        sys.exit('/repo not clean:\n' + out)
    rc, out = sh(['git', '-C', REPO, 'apply', d + '/patch.diff'])
    if rc != 0:
        sys.exit('patch does not apply: ' + out)
    res = {}
    try:
        for p in props:
            t0 = time.time()
            env = dict(os.environ); env['VERIF_TIER'] = tier
            rc, out = sh([V + '/check', p, '--tier', tier], cwd=V, timeout=7200, env=env)
            viol = [l for l in out.splitlines() if l.startswith('VIOLATION')]
            fails = [l.strip() for l in out.splitlines() if 'FAILED CHECK' in l][:6]
            inc = [l for l in out.splitlines() if l.startswith('INCONCLUSIVE')][:4]
            res[p] = dict(exit=rc, violation_lines=viol, failed_checks=fails, inconclusive=inc, wall_s=round(time.time() - t0), tier=tier)
            print(name, p, 'exit', rc, viol[:1], fails[:2], inc[:1], flush=True)
    finally:
        sh(['git', '-C', REPO, 'checkout', '--', '.'])
        # evidence files were rewritten by a run against a modified tree: restore the committed ones
        sh('git checkout -- evidence 2>/dev/null; rm -rf replay', cwd=V)
    rf = SEED + '/results.json'
    allr = json.load(open(rf)) if os.path.exists(rf) else {}
    allr.setdefault(name, {}).update(res)
    json.dump(allr, open(rf, 'w'), indent=1, sort_keys=True)

def do_table():
    rf = SEED + '/results.json'
    allr = json.load(open(rf)) if os.path.exists(rf) else {}
    for name in sorted(os.listdir(SEED)):
        if not os.path.isdir(SEED + '/' + name): continue
        meta = json.load(open(SEED + '/' + name + '/meta.json')) if os.path.exists(SEED + '/' + name + '/meta.json') else {}
        r = allr.get(name, {})
        cells = ['%s:%s' % (p, {0: 'missed', 1: 'CAUGHT', 2: 'inconclusive'}.get(v['exit'], v['exit'])) for p, v in sorted(r.items())]
        print('%-10s %-13s %s' % (name, 'confirmed' if meta.get('confirmed') else 'unconfirmed', ' '.join(cells)))

if __name__ == '__main__':
    a = sys.argv[1:]
    if not a: sys.exit(__doc__)
    if a[0] == 'import': do_import()
    elif a[0] == 'confirm':
        names = a[1:] or sorted(n for n in os.listdir(SEED) if os.path.isdir(SEED + '/' + n))
        do_confirm(names)
    elif a[0] == 'run':
        tier = 'quick'
        if '--tier' in a:
            i = a.index('--tier'); tier = a[i + 1]; a = a[:i] + a[i + 2:]
        if '--copy' in a:
            a.remove('--copy')
            jobs = 8
            do_run_copy(a[1], a[2:], tier, jobs)
        else:
            do_run(a[1], a[2:], tier)
    elif a[0] == 'table': do_table()
