#!/usr/bin/env python3
import json, sys, glob, jsonschema
ms = json.load(open('/root/.vp/MANIFEST.schema.json')); es = json.load(open('/root/.vp/EVIDENCE.schema.json'))
ok = True
try:
    m = json.load(open('/verif/MANIFEST.json')); jsonschema.validate(m, ms); print('MANIFEST ok,', len(m['checks']), 'checks')
except Exception as e:
    print('MANIFEST:', str(e)[:300]); ok = False
for f in sorted(glob.glob('/verif/evidence/*.json')):
    try:
        jsonschema.validate(json.load(open(f)), es); print(f, 'ok')
    except Exception as e:
        print(f, 'INVALID', str(e)[:300]); ok = False
sys.exit(0 if ok else 1)
