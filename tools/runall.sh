#!/bin/sh
# run every claimed quick check once, sequentially; print exit code and wall time
cd /verif
for p in $(python3 -c "import json;print(' '.join(c['property_id'] for c in json.load(open('MANIFEST.json'))['checks']))"); do
  s=$(date +%s); ./check $p --tier ${1:-quick} > /tmp/runall_$p.log 2>&1; rc=$?; e=$(date +%s)
  echo "$p exit=$rc wall=$((e-s))s $(grep -c '\[OK\]' /tmp/runall_$p.log) ok; $(grep -E 'VIOLATION|INCONCLUSIVE|KNOWN' /tmp/runall_$p.log | head -3 | cut -c1-160)"
done
